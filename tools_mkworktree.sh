#!/bin/bash
# usage: tools_mkworktree.sh <dir>  - scratch worktree of /repo HEAD made importable
# (generated *_pb2 files + equinox stand-in are copied in as untracked build output)
set -e
d="$1"
git -C /repo worktree add -f --detach "$d" HEAD -q
pb=$(ls -d /verif/.build/pb-* | head -1)
cp "$pb"/*_pb2*.py "$d/vizier/_src/service/"
mkdir -p "$d/equinox"; cp /verif/simkit/stubs/equinox/__init__.py "$d/equinox/__init__.py"
( cd "$d" && printf 'equinox/\nvizier/_src/service/*_pb2*.py\ndemo*\n' >> .git/info/exclude 2>/dev/null || true )
gd=$(git -C "$d" rev-parse --git-dir); printf 'equinox/\nvizier/_src/service/*_pb2*.py\n' >> "$gd/info/exclude" 2>/dev/null || true
echo "$d ready"
