"""Seeded search driver: fan-out, violations, minimisation, replay, evidence.

One integer (VERIF_SEED) decides everything: run i of property P uses
`random.Random(H(VERIF_SEED, P, i))` to *generate a plan* (pure JSON); executing
a plan draws nothing.  See DESIGN §2.1 / §2.8 / §2.10.
"""
import concurrent.futures as cf
import faulthandler
import hashlib
import json
import multiprocessing
import os
import pickle
import random
import select
import signal
import subprocess
import sys
import time
import traceback

from simkit import boot
from simkit import findings

DEFAULT_SEED = 20261002
NPROC = int(os.environ.get('VERIF_NPROC', '16'))

COMPONENTS = {
    'real': [
        'vizier_service.VizierServicer', 'ram_datastore', 'sql_datastore (SQLAlchemy+SQLite)',
        'pythia_service.PythiaServicer', 'service_policy_supporter', 'policy_factory',
        'vizier_client / clients', 'vizier_server (server classes)', 'stubs_util', 'grpc_util',
        'resources', 'pyvizier converters', 'designer_policy / trial_caches',
        'designers: grid, quasi_random, random, eagle, nsga2, cmaes', 'protobuf runtime',
    ],
    'stub': [
        'gRPC transport (simnet)', 'wall clock / time.sleep (SimClock)', 'OS entropy',
        'thread scheduling + locks (conc engine)', 'process death (crash images)',
        'equinox (import-time stand-in)', 'protoc (protoc_lite at build time)',
        'policy behind PolicyFactory seam where a misbehaving algorithm is needed',
    ],
}


def run_seed(seed, prop, idx):
  h = hashlib.sha256(f'{seed}:{prop}:{idx}'.encode()).digest()
  return int.from_bytes(h[:8], 'big')


def digest_of(obj):
  return hashlib.sha256(
      json.dumps(obj, sort_keys=True, default=repr).encode()).hexdigest()


class Result:
  """Outcome of executing one plan."""

  def __init__(self):
    self.violations = []  # dicts: clause, sig, detail, step
    self.stats = {}
    self.hashes = []  # canonical hashes of evaluations in this run
    self.nontrivial = []  # parallel to hashes
    self.evaluations = 0
    self.sim_s = 0.0
    self.log = []  # event log (for digest)
    self.sample = None

  def bump(self, key, n=1):
    self.stats[key] = self.stats.get(key, 0) + n

  def violate(self, clause, detail, sig=None, step=None):
    self.violations.append(
        {'clause': clause, 'sig': dict(sig or {}), 'detail': str(detail)[:600], 'step': step})

  def evaluation(self, canon, nontrivial):
    self.evaluations += 1
    self.hashes.append(digest_of(canon)[:16])
    self.nontrivial.append(bool(nontrivial))

  @property
  def digest(self):
    return digest_of(self.log)


class Check:
  """Base class of a property check."""

  prop = 'C00'
  level = 'exploration'
  engine = 'svc'
  rule = ''
  assumptions = []
  runs = {'quick': 100, 'thorough': 1000}
  budget_s = {'quick': 100, 'thorough': 1500}
  chunk = 10
  min_budget_runs = 150
  min_budget_s = 90

  def gen(self, rng, idx, tier):
    raise NotImplementedError

  def run(self, plan):
    raise NotImplementedError

  def setup_tier(self, tier):
    """Optional parent-side work before runs (calibration etc.)."""
    return {}

  # -- minimisation hooks
  def shrink_lists(self, plan):
    """Names of list-valued plan fields ddmin may delete elements from."""
    return ['ops']

  def simplify(self, plan):
    """Yields simplified variants of `plan` (one small change each)."""
    return []


def sig_key(prop, v):
  return json.dumps([prop, v['clause'], v['sig']], sort_keys=True)


_CHECK = None
_TIER = None
_SEED = None


ISOLATE = os.environ.get('VERIF_ISOLATE', '1') != '0'


_IN_CHILD = False


def in_pristine_child(fn):
  """Runs fn() in a forked child of this (pristine) process and returns its pickled result.

  The calling process never executes a plan itself, so whatever the code under
  test keeps in module-level state (caches, class attributes, global RNGs) is
  the freshly imported state for every single run: one run cannot influence the
  next, results do not depend on which worker executed what before, and an
  in-process run is equivalent to the fresh-interpreter replay.
  """
  r, w = os.pipe()
  pid = os.fork()
  if pid == 0:
    code = 0
    try:
      os.close(r)
      global _IN_CHILD
      if not _IN_CHILD:
        # (a nested child inherits the armed state without its watchdog thread; arming again would
        # block forever - its parent's select() timeout bounds it instead)
        faulthandler.dump_traceback_later(600, exit=True)
      _IN_CHILD = True
      try:
        payload = ('ok', fn())
      except BaseException:  # pylint: disable=broad-except
        payload = ('exc', traceback.format_exc())
      try:
        data = pickle.dumps(payload)
      except Exception:  # pylint: disable=broad-except
        data = pickle.dumps(('exc', 'result not picklable: ' + traceback.format_exc()))
      with os.fdopen(w, 'wb') as f:
        f.write(data)
    except BaseException:  # pylint: disable=broad-except
      code = 3
    finally:
      os._exit(code)  # pylint: disable=protected-access
  os.close(w)
  chunks = []
  deadline = time.time() + 700
  with os.fdopen(r, 'rb', buffering=0) as f:
    while True:
      ready, _, _ = select.select([f], [], [], max(0.0, deadline - time.time()))
      if not ready:
        os.kill(pid, signal.SIGKILL)  # stuck child: bounded by wall clock, reported as a harness error
        break
      b = f.read(1 << 20)
      if not b:
        break
      chunks.append(b)
  os.waitpid(pid, 0)
  data = b''.join(chunks)
  if not data:
    return ('exc', 'child died without a result (crash or 600 s timeout)')
  return pickle.loads(data)


def _one_run(idx):
  rs = run_seed(_SEED, _CHECK.prop, idx)
  rng = random.Random(rs)
  t0 = time.time()
  plan = _CHECK.gen(rng, idx, _TIER)
  res = _CHECK.run(plan)
  return {
      'idx': idx, 'plan': (getattr(res, 'pinned_plan', None) or plan) if (res.violations or idx < 3) else None,
      'violations': res.violations, 'stats': res.stats, 'hashes': res.hashes,
      'nontrivial': res.nontrivial, 'evaluations': res.evaluations,
      'sim_s': res.sim_s, 'digest': res.digest, 'sample': res.sample if idx < 4 else None,
      'wall': time.time() - t0,
  }


def _worker(chunk):
  # (no faulthandler watchdog here when runs are isolated: a forked child would inherit its armed state
  # without its thread and block forever when arming its own)
  if not ISOLATE:
    faulthandler.dump_traceback_later(900, exit=True)
  out = []

  def run_all():
    res = []
    for idx in chunk:
      try:
        res.append(_one_run(idx))
      except Exception:  # pylint: disable=broad-except
        res.append({'idx': idx, 'harness_error': traceback.format_exc()})
    return res

  try:
    if ISOLATE:
      # One pristine child per chunk: module-level state of the code under test starts freshly
      # imported for every chunk, so a run can only be influenced by the earlier runs of ITS chunk
      # (a fixed list) - never by which worker happened to execute what before.
      status, val = in_pristine_child(run_all)
      if status == 'ok':
        out = val
      else:
        out = [{'idx': idx, 'harness_error': val} for idx in chunk]
    else:
      out = run_all()
  finally:
    if not ISOLATE:
      faulthandler.cancel_dump_traceback_later()
  return out


def _execute_plan(check, plan):
  return check.run(plan)


def _same(viol, target):
  return viol['clause'] == target['clause'] and viol['sig'] == target['sig']


class _ResView:
  """What the parent needs of a Result computed in a child."""

  def __init__(self, d):
    self.__dict__.update(d)


def _run_plan_view(check, plan, context=()):
  for p in context:
    # plans that ran earlier in the same process; only their side effects on the process matter
    try:
      check.run(p)
    except Exception:  # pylint: disable=broad-except
      pass
  res = check.run(plan)
  return {'violations': res.violations, 'digest': res.digest,
          'pinned_plan': getattr(res, 'pinned_plan', None)}


def reproduces(check, plan, target, context=()):
  if ISOLATE or context:
    status, val = in_pristine_child(lambda: _run_plan_view(check, plan, context))
    if status != 'ok':
      return None
    res = _ResView(val)
  else:
    try:
      res = check.run(plan)
    except Exception:  # pylint: disable=broad-except
      return None
  for v in res.violations:
    if _same(v, target):
      return res
  return None


def minimise(check, plan, target, budget_runs=150, budget_s=90):
  """ddmin over the plan's list fields, then per-check simplifications."""
  t0 = time.time()
  runs = [0]

  def ok(p):
    if runs[0] >= budget_runs or time.time() - t0 > budget_s:
      return False
    runs[0] += 1
    return reproduces(check, p, target) is not None

  best = json.loads(json.dumps(plan))
  for field in check.shrink_lists(best):
    items = best.get(field) or []
    n = 2
    while len(items) >= 1 and n <= max(2, len(items)) and runs[0] < budget_runs:
      size = max(1, len(items) // n)
      reduced = False
      for start in range(0, len(items), size):
        cand_items = items[:start] + items[start + size:]
        cand = dict(best)
        cand[field] = cand_items
        if ok(cand):
          best, items = cand, cand_items
          n = max(n - 1, 2)
          reduced = True
          break
      if not reduced:
        if size == 1:
          break
        n = min(len(items), n * 2)
  changed = True
  while changed and runs[0] < budget_runs:
    changed = False
    for cand in check.simplify(best):
      if ok(cand):
        best = cand
        changed = True
        break
  return best, runs[0]


def replay_file(check, path):
  doc = json.load(open(path))
  res = reproduces(check, doc['plan'], doc['violation'], context=doc.get('context_plans') or ())
  if res is None:
    print(f'REPLAY-MISMATCH property={doc["property"]} replay={path}: violation did not reproduce')
    return 2
  if doc.get('digest') and res.digest != doc['digest']:
    print(f'REPLAY-MISMATCH property={doc["property"]} replay={path}: digest differs')
    return 2
  v = [x for x in res.violations if _same(x, doc['violation'])][0]
  kf = findings.match(doc['property'], v)
  if kf is not None:
    print(f'KNOWN-FINDING: property={doc["property"]} {kf["id"]}: {kf["what"]}')
    print(f'REPLAYED property={doc["property"]} clause={v["clause"]} digest={res.digest[:16]} (listed finding)')
    return 0
  print(f'VIOLATION property={doc["property"]} replay={path}')
  print(f'  clause={v["clause"]} sig={json.dumps(v["sig"], sort_keys=True)}')
  print(f'  detail={v["detail"]}')
  print(f'  digest={res.digest}')
  return 1


def main(check, tier, argv=()):
  """Runs a check; returns the process exit code."""
  global _CHECK, _TIER, _SEED
  t_start = time.time()
  seed = int(os.environ.get('VERIF_SEED', DEFAULT_SEED))
  tier = os.environ.get('VERIF_TIER', tier)
  if tier not in ('quick', 'thorough'):
    tier = 'quick'
  print(f'VERIF_SEED={seed} property={check.prop} tier={tier} repo={boot.REPO}')
  boot.boot()
  _CHECK, _TIER, _SEED = check, tier, seed
  extra = check.setup_tier(tier) or {}
  n_runs = int(os.environ.get('VERIF_RUNS', check.runs[tier]))
  budget = float(os.environ.get('VERIF_BUDGET_S', check.budget_s[tier]))
  chunks = [list(range(i, min(i + check.chunk, n_runs))) for i in range(0, n_runs, check.chunk)]

  agg = {
      'evaluations': 0, 'runs': 0, 'sim_s': 0.0, 'stats': {}, 'hashes_nt': set(),
      'hashes_all': set(), 'samples': [], 'harness_errors': [], 'viol': {}, 'viol_count': 0,
      'digests': hashlib.sha256(),
  }
  results = {}
  ctx = multiprocessing.get_context('fork')
  truncated = False
  with cf.ProcessPoolExecutor(max_workers=NPROC, mp_context=ctx) as ex:
    pending = {}
    it = iter(chunks)
    try:
      for _ in range(NPROC * 2):
        c = next(it, None)
        if c is None:
          break
        pending[ex.submit(_worker, c)] = c
      while pending:
        done, _ = cf.wait(list(pending), return_when=cf.FIRST_COMPLETED, timeout=900)
        if not done:
          print('HARNESS-ERROR: worker wall timeout')
          for f in pending:
            f.cancel()
          os._exit(2)  # pylint: disable=protected-access
        for f in done:
          pending.pop(f)
          for r in f.result():
            results[r['idx']] = r
          if time.time() - t_start < budget:
            c = next(it, None)
            if c is not None:
              pending[ex.submit(_worker, c)] = c
          else:
            truncated = True
    except cf.process.BrokenProcessPool:
      print('HARNESS-ERROR: a worker died (see stderr)')
      return 2

  for idx in sorted(results):
    r = results[idx]
    if 'harness_error' in r:
      agg['harness_errors'].append((idx, r['harness_error']))
      continue
    agg['runs'] += 1
    agg['evaluations'] += r['evaluations']
    agg['sim_s'] += r['sim_s']
    agg['digests'].update(r['digest'].encode())
    for k, v in r['stats'].items():
      agg['stats'][k] = agg['stats'].get(k, 0) + v
    for h, nt in zip(r['hashes'], r['nontrivial']):
      agg['hashes_all'].add(h)
      if nt:
        agg['hashes_nt'].add(h)
    if r.get('sample') is not None and len(agg['samples']) < 4:
      agg['samples'].append(r['sample'])
    for v in r['violations']:
      agg['viol_count'] += 1
      k = sig_key(check.prop, v)
      if k not in agg['viol']:
        agg['viol'][k] = {'v': v, 'idx': idx, 'plan': r['plan'], 'count': 0}
      agg['viol'][k]['count'] += 1

  exit_code = 0
  confirmed = False  # at least one violation minimised, replayed in a fresh interpreter and reported
  if agg['harness_errors']:
    idx, tb = agg['harness_errors'][0]
    print(f'HARNESS-ERROR: {len(agg["harness_errors"])} runs raised in the harness; first (run {idx}):')
    print(tb)
    exit_code = 2

  unlisted = 0
  known_hits = {}
  reported = 0
  os.makedirs(os.path.join(boot.VERIF_ROOT, 'replays'), exist_ok=True)
  if os.environ.get('VERIF_LIST') == '1' and agg['viol']:
    # Debug aid: list every distinct signature, skip minimisation.
    for k in sorted(agg['viol']):
      ent = agg['viol'][k]
      kf = findings.match(check.prop, ent['v'])
      print(f'SIG {"known" if kf else "NEW"} x{ent["count"]} {ent["v"]["clause"]} {json.dumps(ent["v"]["sig"], sort_keys=True)} :: {ent["v"]["detail"][:160]}')
    return 3
  for k in sorted(agg['viol']):
    ent = agg['viol'][k]
    v = ent['v']
    kf = findings.match(check.prop, v)
    if kf is not None:
      known_hits.setdefault(kf['id'], [kf, 0])
      known_hits[kf['id']][1] += ent['count']
      continue
    unlisted += 1
    if reported >= 6:
      continue
    reported += 1
    plan = ent['plan']
    small, nmin = minimise(check, plan, v, check.min_budget_runs, check.min_budget_s)
    res = reproduces(check, small, v)
    if res is None:
      small = plan
      res = reproduces(check, small, v)
    context = []
    if res is None:
      # Not reproducible on its own: it may depend on what ran earlier in the same process (its chunk).
      # That is a property of the code under test (process-level state leaking from one study into
      # another), and it is replayable: the earlier plans of the chunk become the replay's context.
      start = (ent['idx'] // check.chunk) * check.chunk
      context = [check.gen(random.Random(run_seed(seed, check.prop, j)), j, tier) for j in range(start, ent['idx'])]
      res = reproduces(check, plan, v, context=context) if context else None
      if res is not None:
        # shrink the context: drop plans while the violation persists
        budget_t = time.time() + 60
        i = 0
        while i < len(context) and time.time() < budget_t:
          cand = context[:i] + context[i + 1:]
          r2 = reproduces(check, plan, v, context=cand) if cand else None
          if r2 is not None:
            context, res = cand, r2
          else:
            i += 1
        small = plan
    if res is None:
      print(f'HARNESS-ERROR: violation {v["clause"]} of run {ent["idx"]} did not reproduce in-process: {v["detail"]}')
      exit_code = 2
      continue
    vv = [x for x in res.violations if _same(x, v)][0]
    name = f'{check.prop}-{hashlib.sha256(k.encode()).hexdigest()[:12]}.json'
    path = os.path.join(boot.VERIF_ROOT, 'replays', name)
    doc = {
        'property': check.prop, 'engine': check.engine, 'verif_seed': seed, 'run': ent['idx'],
        'plan': small, 'violation': {'clause': vv['clause'], 'sig': vv['sig'], 'detail': vv['detail']},
        'digest': res.digest, 'minimise_runs': nmin, 'occurrences': ent['count'],
        'original_ops': len(plan.get('ops', [])), 'minimised_ops': len(small.get('ops', [])),
    }
    if context:
      doc['context_plans'] = context
      doc['note'] = ('the violation needs the context plans to have run earlier in the same process: '
                     'process-level state of the code under test leaks from one study into another')
    with open(path, 'w') as f:
      json.dump(doc, f, indent=1, sort_keys=True, default=repr)
    # Replay in a fresh interpreter before reporting.
    env = dict(os.environ)
    env.pop('_VERIF_PINNED', None)
    p = subprocess.run(
        [sys.executable, os.path.join(boot.VERIF_ROOT, 'vcheck'), 'replay', path],
        capture_output=True, text=True, env=env, timeout=600)
    if p.returncode == 1 and f'VIOLATION property={check.prop}' in p.stdout:
      print(f'VIOLATION property={check.prop} replay={path}')
      print(f'  clause={vv["clause"]} sig={json.dumps(vv["sig"], sort_keys=True)} occurrences={ent["count"]}')
      print(f'  detail={vv["detail"]}')
      if context:
        print(f'  context={len(context)} earlier run(s) in the same process are part of the replay (state leaks between studies)')
      confirmed = True
    else:
      print(f'HARNESS-ERROR: replay of {path} in a fresh interpreter did not reproduce (rc={p.returncode})')
      print(p.stdout[-2000:])
      print(p.stderr[-2000:])
      exit_code = 2
  if unlisted > reported:
    print(f'note: {unlisted - reported} further distinct violation signatures not minimised')

  for fid in sorted(known_hits):
    kf, n = known_hits[fid]
    print(f'KNOWN-FINDING: property={check.prop} {fid}: {kf["what"]} (seen {n}x)')

  wall = time.time() - t_start
  skip = set(getattr(check, 'thorough_only_probes', [])) if tier == 'quick' else set()
  zero_probes = sorted(
      p for p in getattr(check, 'probes', []) if not agg['stats'].get(p) and p not in skip)
  for p in zero_probes:
    print(f'warning: reach probe at zero: {p}')
  coverage = {
      'evaluations': agg['evaluations'],
      'distinct_nontrivial': len(agg['hashes_nt']),
      'distinct_total': len(agg['hashes_all']),
      'rule': check.rule,
      'samples': agg['samples'] or [{'note': 'no sample recorded'}],
      'runs': agg['runs'],
      'runs_planned': n_runs,
      'truncated_by_budget': truncated,
      'runs_per_hour': int(agg['runs'] / max(wall, 1e-6) * 3600),
      'evaluations_per_hour': int(agg['evaluations'] / max(wall, 1e-6) * 3600),
      'simulated_seconds': round(agg['sim_s'], 3),
      'fired': {k: v for k, v in sorted(agg['stats'].items())},
      'probes_at_zero': zero_probes,
      'known_findings_seen': {fid: n for fid, (kf, n) in sorted(known_hits.items())},
      'violation_occurrences': agg['viol_count'],
      'run_digest': agg['digests'].hexdigest(),
      'components': COMPONENTS,
      'engine': check.engine,
      'exhaustive': False,
  }
  coverage.update(extra)
  evidence = {
      'property_id': check.prop, 'tier': tier, 'seed': seed, 'level': check.level,
      'coverage': coverage, 'assumptions': list(check.assumptions),
      'wall_s': round(wall, 2), 'violations': unlisted,
  }
  ev_dir = os.environ.get('VERIF_EVIDENCE_DIR') or os.path.join(boot.VERIF_ROOT, 'evidence')
  os.makedirs(ev_dir, exist_ok=True)
  ev_path = os.path.join(ev_dir, f'{check.prop}.json')
  with open(ev_path + '.tmp', 'w') as f:
    json.dump(evidence, f, indent=1, sort_keys=True, default=repr)
  os.replace(ev_path + '.tmp', ev_path)
  print(
      f'{check.prop} {tier}: runs={agg["runs"]} evaluations={agg["evaluations"]} '
      f'distinct_nontrivial={len(agg["hashes_nt"])} violations={unlisted} '
      f'known={len(known_hits)} wall={wall:.1f}s digest={coverage["run_digest"][:16]}')
  if confirmed:
    # A confirmed, replayable violation decides the outcome; violations that could not be reproduced
    # (e.g. the code under test became non-deterministic) stay listed above as HARNESS-ERROR lines.
    exit_code = 1
  if agg['runs'] == 0 and exit_code == 0:
    print('HARNESS-ERROR: no run completed')
    exit_code = 2
  return exit_code
