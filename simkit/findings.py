"""Known findings: committed, read-only at run time (DESIGN §2.8).

known_findings.json holds a list of entries
  {"id": "...", "property": "C04", "status": "known" | "fixed",
   "clause": "<violation clause>", "match": {<sig key>: <value>, ...},
   "what": "<what fails>", "commit": "<fix commit, for fixed entries>"}
A violation is *listed* iff an entry with status "known" has the same
property and clause and every key of `match` equals the violation's sig.
Entries with status "fixed" suppress nothing.
"""
import json
import os

_PATH = os.path.join(os.path.dirname(os.path.dirname(os.path.abspath(__file__))),
                     'known_findings.json')
_CACHE = None


def load():
  global _CACHE
  if _CACHE is None:
    if os.path.exists(_PATH):
      _CACHE = json.load(open(_PATH))['findings']
    else:
      _CACHE = []
  return _CACHE


def match(prop, violation):
  for f in load():
    if f.get('status') != 'known' or f['property'] != prop:
      continue
    if 'clause_prefix' in f:
      # (the suffix of C04's clause only names which parts of the outcome differ from every serial order)
      if not violation['clause'].startswith(f['clause_prefix']):
        continue
    elif f['clause'] != violation['clause']:
      continue
    sig = violation.get('sig', {})
    if all(sig.get(k) == v for k, v in f.get('match', {}).items()):
      return f
  return None


def validate():
  ids = set()
  for f in load():
    for k in ('id', 'property', 'status', 'clause', 'what'):
      if k not in f:
        raise ValueError(f'known_findings entry lacks {k}: {f}')
    if f['status'] not in ('known', 'fixed'):
      raise ValueError(f'bad status in {f["id"]}')
    if f['id'] in ids:
      raise ValueError(f'duplicate id {f["id"]}')
    ids.add(f['id'])
  return len(ids)
