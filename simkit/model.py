"""ModelService: the documented API as a small sequential specification.

Written from vizier_service.proto / study.proto comments, the RPC docstrings,
client_abc.py and datastore.py's contract (DESIGN Appendix A) - not from the
servicer's code.  Where the documents are silent the model is a *relation*:
it accepts the implementation's choice if legal and adopts it.

The model consumes concrete ops (simkit.ops.resolve) and normalised outcomes
(simkit.ops.outcome_norm) and returns a list of (clause, detail) mismatches.
"""
import copy

from simkit import ops as O

RESERVED_NS_PREFIX = ':designer_policy_v0'


def user_md(md):
  return tuple(e for e in md if not e[0].startswith(RESERVED_NS_PREFIX))


class Model:

  def __init__(self, cfg):
    self.cfg = cfg
    self.studies = {}  # name -> dict
    self.owners = set()
    self.ops = {}  # op name -> nop (as returned)
    self.metric_goals = [('m', 'MAX')] + ([('n', 'MIN')] if cfg.get('metrics', 1) == 2 else [])

  # -------------------------------------------------------------- helpers
  def _pre(self, c, out, mism, trial=False, immut=True):
    """Common error rules. Returns study dict / trial dict, or None if the
    call must have failed (and checks that it did)."""
    name = c['study']
    kind = c['kind']
    st = self.studies.get(name)
    if st is None:
      if out[:2] != ('err', 'NOT_FOUND'):
        mism.append((f'{kind}.missing-study', f'expected NOT_FOUND got {out[:3]}'))
      return None
    if immut and st['state'] not in O.MUTABLE_STUDY:
      if out[:2] != ('err', 'FAILED_PRECONDITION'):
        mism.append((f'{kind}.immutable-study', f'study {st["state"]}: expected FAILED_PRECONDITION got {out[:3]}'))
      return None
    if not trial:
      return st
    t = st['trials'].get(c['trial'])
    if t is None:
      if out[:2] != ('err', 'NOT_FOUND'):
        mism.append((f'{kind}.missing-trial', f'expected NOT_FOUND got {out[:3]}'))
      return None
    return t

  def _expect_ok(self, kind, out, mism, shape):
    if out[0] != 'ok' or out[1] != shape:
      mism.append((f'{kind}.ok', f'expected ok/{shape} got {out[:3]}'))
      return False
    return True

  def _cmp_trial(self, kind, got, exp, mism, skip=()):
    for f in ('id', 'name', 'state', 'params', 'meas', 'final', 'client', 'reason', 'md'):
      if f in skip:
        continue
      if got[f] != exp[f]:
        mism.append((f'{kind}.response.{f}', f'trial {exp["id"]}: got {got[f]!r} expected {exp[f]!r}'))

  # ------------------------------------------------------------------ ops
  def apply(self, c, out):
    """Checks outcome `out` of concrete op `c`, then updates the model."""
    mism = []
    getattr(self, 'op_' + c['kind'])(c, out, mism)
    return mism

  def op_CreateStudy(self, c, out, mism):
    if c.get('empty'):
      if out[:2] != ('err', 'INVALID'):
        mism.append(('CreateStudy.empty-display-name', f'expected INVALID got {out[:3]}'))
      return
    name = O.study_name(c['owner'], c['display'])
    if not self._expect_ok('CreateStudy', out, mism, 'study'):
      return
    got = out[2]
    if got['name'] != name:
      mism.append(('CreateStudy.name', f'got {got["name"]} expected {name}'))
    if name in self.studies:
      st = self.studies[name]
      if got['state'] != st['state']:
        mism.append(('CreateStudy.existing.state', f'got {got["state"]} expected {st["state"]}'))
      if user_md(got['md']) != tuple(sorted(st['md'].values())):
        mism.append(('CreateStudy.existing.md', f'got {got["md"]}'))
      return
    self.studies[name] = {
        'owner': c['owner'], 'display': O.sid(c['display']), 'state': c['state'], 'md': {},
        'trials': {}, 'opnum': {},
    }
    self.owners.add(c['owner'])

  def op_GetStudy(self, c, out, mism):
    st = self._pre(c, out, mism, immut=False)
    if st is None:
      return
    if self._expect_ok('GetStudy', out, mism, 'study'):
      if out[2]['state'] != st['state']:
        mism.append(('GetStudy.state', f'got {out[2]["state"]} expected {st["state"]}'))

  def op_ListStudies(self, c, out, mism):
    if c['owner'] not in self.owners:
      if out[:2] != ('err', 'NOT_FOUND'):
        mism.append(('ListStudies.unknown-owner', f'expected NOT_FOUND got {out[:3]}'))
      return
    if self._expect_ok('ListStudies', out, mism, 'studies'):
      exp = sorted(n for n, s in self.studies.items() if s['owner'] == c['owner'])
      if out[2] != exp:
        mism.append(('ListStudies.names', f'got {out[2]} expected {exp}'))

  def op_DeleteStudy(self, c, out, mism):
    st = self._pre(c, out, mism, immut=False)
    if st is None:
      return
    if self._expect_ok('DeleteStudy', out, mism, 'empty'):
      prefix = f'owners/{O.oid(st["owner"])}/operations/suggestion/{st["display"]}/'
      for n in [n for n in self.ops if n.startswith(prefix)]:
        self.ops[n] = None  # gone
      del self.studies[c['study']]

  def op_SetStudyState(self, c, out, mism):
    st = self._pre(c, out, mism, immut=False)
    if st is None:
      return
    if self._expect_ok('SetStudyState', out, mism, 'study'):
      st['state'] = c['state']
      if out[2]['state'] != c['state']:
        mism.append(('SetStudyState.response', f'got {out[2]["state"]}'))

  def op_CreateTrial(self, c, out, mism):
    st = self._pre(c, out, mism)
    if st is None:
      return
    if not self._expect_ok('CreateTrial', out, mism, 'trial'):
      return
    got = out[2]
    mx = max(st['trials'], default=0)
    tk = c.get('tkind', 'plain')
    params = tuple(sorted(O.param_values(self.cfg.get('space', 'int10'), c['x']).items()))
    exp = {
        'id': mx + 1, 'name': f'{c["study"]}/trials/{mx + 1}', 'params': params, 'meas': (),
        'final': None, 'client': '', 'md': (), 'reason': '',
        'state': 'SUCCEEDED' if tk == 'succeeded' else 'REQUESTED',
    }
    skip = []
    if tk == 'succeeded':
      exp['final'] = (0, tuple(sorted({'m': float(c.get('v', 1)), 'n': float(c.get('w', 1))}.items())))
    if tk == 'rich':
      v, w = float(c.get('v', 1)), float(c.get('w', 1))
      exp['meas'] = ((1, tuple(sorted({'m': v, 'n': w}.items()))), (2, tuple(sorted({'m': w, 'n': v}.items()))))
      exp['md'] = ((':a', 'k1', 'S', str(c.get('v', 1))),)
    if tk == 'infeasible':
      # Documents say "REQUESTED or COMPLETED" without covering this case.
      if got['state'] not in ('INFEASIBLE', 'REQUESTED'):
        mism.append(('CreateTrial.state.infeasible', f'got {got["state"]}'))
      skip = ['state', 'reason']
      exp['state'] = got['state']
      exp['reason'] = got['reason']
    self._cmp_trial('CreateTrial', got, exp, mism, skip)
    if got['id'] in st['trials']:
      mism.append(('CreateTrial.id-reused', f'id {got["id"]} already present'))
      return
    st['trials'][got['id']] = dict(exp, id=got['id'], name=got['name'])

  def op_SuggestTrials(self, c, out, mism):
    st = self._pre(c, out, mism)
    if st is None:
      return
    if not self._expect_ok('SuggestTrials', out, mism, 'op'):
      return
    op = out[2]
    w = O.WORKERS[c['worker'] % len(O.WORKERS)]
    n = c['n']
    st['opnum'][w] = st['opnum'].get(w, 0) + 1
    exp_name = f'owners/{O.oid(st["owner"])}/operations/suggestion/{st["display"]}/{w}/{st["opnum"][w]}'
    if op['name'] != exp_name:
      mism.append(('SuggestTrials.opname', f'got {op["name"]} expected {exp_name}'))
    if not op['done']:
      mism.append(('SuggestTrials.done', 'operation returned not done'))
    self.ops[op['name']] = op
    if op['error']:
      mism.append(('SuggestTrials.error', f'fault-free suggest returned error: {op["error"]}'))
      return
    trials = op['trials']
    if len(trials) != n:
      mism.append(('SuggestTrials.count', f'got {len(trials)} expected {n}'))
    own = sorted(i for i, t in st['trials'].items() if t['state'] == 'ACTIVE' and t['client'] == w)
    pool = sorted(i for i, t in st['trials'].items() if t['state'] == 'REQUESTED')
    mx = max(st['trials'], default=0)
    ids = [t['id'] for t in trials]
    if len(set(ids)) != len(ids):
      mism.append(('SuggestTrials.duplicate', f'ids {ids}'))
    got_own = [i for i in ids if i in own]
    got_pool = [i for i in ids if i in pool]
    got_new = [i for i in ids if i not in st['trials']]
    if len(got_own) != min(len(own), n):
      mism.append(('SuggestTrials.own-first', f'own={own} got={ids} n={n}'))
    if len(got_pool) != min(len(pool), max(0, n - len(own))):
      mism.append(('SuggestTrials.pool-next', f'pool={pool} own={own} got={ids} n={n}'))
    if len(got_own) + len(got_pool) + len(got_new) != len(ids):
      mism.append(('SuggestTrials.foreign-trial', f'ids {ids} own={own} pool={pool}'))
    for t in trials:
      if (t['state'], t['client']) != ('ACTIVE', w):
        mism.append(('SuggestTrials.active-and-assigned', f'trial {t["id"]}: {t["state"]} client={t["client"]!r}'))
      if t['id'] in st['trials']:
        old = st['trials'][t['id']]
        if t['id'] in got_own or t['id'] in got_pool:
          exp = dict(old, state='ACTIVE', client=w)
          self._cmp_trial('SuggestTrials', t, exp, mism)
          old['state'] = 'ACTIVE'
          old['client'] = w
      else:
        if t['id'] <= mx:
          mism.append(('SuggestTrials.fresh-id', f'new id {t["id"]} <= max {mx}'))
        if t['meas'] or t['final'] is not None or t['reason']:  # (algorithms may attach metadata)
          mism.append(('SuggestTrials.new-trial-not-blank', f'{t}'))
        st['trials'][t['id']] = dict(t)

  def op_GetTrial(self, c, out, mism):
    t = self._pre(c, out, mism, trial=True, immut=False)
    if t is None:
      return
    if self._expect_ok('GetTrial', out, mism, 'trial'):
      self._cmp_trial('GetTrial', out[2], t, mism)

  def op_ListTrials(self, c, out, mism):
    st = self._pre(c, out, mism, immut=False)
    if st is None:
      return
    if self._expect_ok('ListTrials', out, mism, 'trials'):
      if [t['id'] for t in out[2]] != sorted(st['trials']):
        mism.append(('ListTrials.ids', f'got {[t["id"] for t in out[2]]} expected {sorted(st["trials"])}'))

  def op_AddTrialMeasurement(self, c, out, mism):
    t = self._pre(c, out, mism, trial=True)
    if t is None:
      return
    if t['state'] in ('ACTIVE', 'STOPPING'):
      if self._expect_ok('AddTrialMeasurement', out, mism, 'trial'):
        m = (int(c.get('step', 0)), tuple(sorted({'m': float(c.get('v', 0)), 'n': float(c.get('w', 0))}.items())))
        t['meas'] = t['meas'] + (m,)
        self._cmp_trial('AddTrialMeasurement', out[2], t, mism)
    elif t['state'] == 'INFEASIBLE':
      if not (out[0] == 'ok' or out[:2] == ('err', 'FAILED_PRECONDITION')):
        mism.append(('AddTrialMeasurement.infeasible', f'got {out[:3]}'))
    else:
      if out[:2] != ('err', 'FAILED_PRECONDITION'):
        mism.append(('AddTrialMeasurement.illegal-state', f'trial {t["state"]}: expected FAILED_PRECONDITION got {out[:2]}'))

  def op_CompleteTrial(self, c, out, mism):
    t = self._pre(c, out, mism, trial=True)
    if t is None:
      return
    if t['state'] not in ('ACTIVE', 'STOPPING'):
      if out[:2] != ('err', 'FAILED_PRECONDITION'):
        mism.append(('CompleteTrial.illegal-state', f'trial {t["state"]}: expected FAILED_PRECONDITION got {out[:2]}'))
      return
    ck = c.get('ckind', 'final')
    if ck == 'auto' and not t['meas']:
      if out[:2] != ('err', 'INVALID'):
        mism.append(('CompleteTrial.no-measurement', f'expected INVALID got {out[:2]}'))
      return
    if not self._expect_ok('CompleteTrial', out, mism, 'trial'):
      return
    fm = None
    if 'final' in ck:
      vals = {'m': float(c.get('v', 0)), 'n': float(c.get('w', 0))}
      if ck.startswith('partial'):
        vals = {'m': float(c.get('v', 0))}
      fm = (0, tuple(sorted(vals.items())))
    if 'infeasible' in ck:
      t['state'] = 'INFEASIBLE'
      t['reason'] = c.get('reason', 'bad')
      if fm is not None:
        t['final'] = fm
    else:
      t['state'] = 'SUCCEEDED'
      t['final'] = fm if fm is not None else t['meas'][-1]
    self._cmp_trial('CompleteTrial', out[2], t, mism)

  def op_StopTrial(self, c, out, mism):
    t = self._pre(c, out, mism, trial=True)
    if t is None:
      return
    if t['state'] == 'ACTIVE':
      if self._expect_ok('StopTrial', out, mism, 'trial'):
        t['state'] = 'STOPPING'
        self._cmp_trial('StopTrial', out[2], t, mism)
    elif t['state'] in ('STOPPING', 'SUCCEEDED'):
      if self._expect_ok('StopTrial.noop', out, mism, 'trial'):
        self._cmp_trial('StopTrial.noop', out[2], t, mism)
    elif t['state'] == 'INFEASIBLE':
      if not (out[0] == 'ok' or out[:2] == ('err', 'FAILED_PRECONDITION')):
        mism.append(('StopTrial.infeasible', f'got {out[:3]}'))
    else:
      if out[:2] != ('err', 'FAILED_PRECONDITION'):
        mism.append(('StopTrial.requested', f'expected FAILED_PRECONDITION got {out[:2]}'))

  def op_DeleteTrial(self, c, out, mism):
    t = self._pre(c, out, mism, trial=True)
    if t is None:
      return
    if self._expect_ok('DeleteTrial', out, mism, 'empty'):
      del self.studies[c['study']]['trials'][c['trial']]

  def op_CheckES(self, c, out, mism):
    t = self._pre(c, out, mism, trial=True)
    if t is None:
      return
    if t['state'] in ('ACTIVE', 'STOPPING'):
      self._expect_ok('CheckES', out, mism, 'es')
    else:
      if out[:2] != ('err', 'FAILED_PRECONDITION'):
        mism.append(('CheckES.illegal-state', f'trial {t["state"]}: expected FAILED_PRECONDITION got {out[:2]}'))

  def op_UpdateMetadata(self, c, out, mism):
    st = self._pre(c, out, mism)
    if st is None:
      return
    missing = [it['trial'] for it in c['items']
               if it.get('trial') is not None and it['trial'] not in st['trials']]
    if missing:
      if out[:3] != ('ok', 'md', 'error'):
        mism.append(('UpdateMetadata.missing-trial-reports-error', f'missing {missing}: got {out[:3]}'))
      return
    if out[:3] != ('ok', 'md', 'ok'):
      mism.append(('UpdateMetadata.ok', f'got {out[:3]}'))
      return
    for it in c['items']:
      ns = O.NS_BENIGN[it['ns'] % len(O.NS_BENIGN)] if isinstance(it['ns'], int) else it['ns']
      key = O.KEYS[it['key'] % len(O.KEYS)] if isinstance(it['key'], int) else it['key']
      val = it['value']
      if isinstance(val, list) and val[0] == 'P':
        from google.protobuf import wrappers_pb2  # pylint: disable=g-import-not-at-top
        packed = wrappers_pb2.Int64Value(value=int(val[1]))
        e = (ns, key, 'P', 'type.googleapis.com/google.protobuf.Int64Value',
             packed.SerializeToString().hex())
      else:
        e = (ns, key, 'S', str(val[1] if isinstance(val, list) else val))
      if it.get('trial') is None:
        st['md'][(ns, key)] = e
      else:
        t = st['trials'][it['trial']]
        d = {(x[0], x[1]): x for x in t['md']}
        d[(ns, key)] = e
        t['md'] = tuple(sorted(d.values()))

  def op_ListOptimalTrials(self, c, out, mism):
    st = self._pre(c, out, mism, immut=False)
    if st is None:
      return
    if not self._expect_ok('ListOptimalTrials', out, mism, 'optimal'):
      return
    pts = {}
    for i, t in st['trials'].items():
      if t['state'] == 'SUCCEEDED' and t['final'] is not None:
        d = dict(t['final'][1])
        if all(m in d for m, _ in self.metric_goals):
          pts[i] = tuple(d[m] if g == 'MAX' else -d[m] for m, g in self.metric_goals)
    k = len(self.metric_goals)
    opt = sorted(
        i for i, p in pts.items()
        if not any(all(q[j] >= p[j] for j in range(k)) and any(q[j] > p[j] for j in range(k))
                   for q in pts.values()))
    if out[2] != opt:
      mism.append(('ListOptimalTrials.set', f'got {out[2]} expected {opt}'))

  def op_GetOperation(self, c, out, mism):
    exp = self.ops.get(c['name'])
    if exp is None:
      if out[:2] != ('err', 'NOT_FOUND'):
        mism.append(('GetOperation.missing', f'{c["name"]}: expected NOT_FOUND got {out[:2]}'))
      return
    if self._expect_ok('GetOperation', out, mism, 'op'):
      if out[2] != exp:
        mism.append(('GetOperation.content', f'{c["name"]}: stored operation differs from the one returned'))

  # ------------------------------------------------------------- snapshot
  def compare_snapshot(self, snap):
    """Full observable state vs. model. Returns mismatches."""
    mism = []
    for o in (0, 1):
      got = snap['owners'].get(o)
      if o not in self.owners:
        if got != ('err', 'NOT_FOUND'):
          mism.append(('snapshot.owner', f'owner o{o} unknown to model but ListStudies gave {got}'))
        continue
      exp = sorted(n for n, s in self.studies.items() if s['owner'] == o)
      if got != ('ok', exp):
        mism.append(('snapshot.studies', f'owner o{o}: got {got} expected {exp}'))
    for name, st in self.studies.items():
      g = snap['studies'].get(name)
      if g is None:
        continue  # already reported through snapshot.studies
      if not isinstance(g['study'], dict):
        mism.append(('snapshot.GetStudy', f'{name}: {g["study"]}'))
        continue
      if g['study']['state'] != st['state']:
        mism.append(('snapshot.study.state', f'{name}: got {g["study"]["state"]} expected {st["state"]}'))
      if user_md(g['study']['md']) != tuple(sorted(st['md'].values())):
        mism.append(('snapshot.study.md', f'{name}: got {user_md(g["study"]["md"])} expected {tuple(sorted(st["md"].values()))}'))
      if not isinstance(g['trials'], dict):
        mism.append(('snapshot.ListTrials', f'{name}: {g["trials"]}'))
        continue
      if sorted(g['trials']) != sorted(st['trials']):
        mism.append(('snapshot.trial-ids', f'{name}: got {sorted(g["trials"])} expected {sorted(st["trials"])}'))
        continue
      for i, t in st['trials'].items():
        for f in ('name', 'state', 'params', 'meas', 'final', 'client', 'reason', 'md'):
          if g['trials'][i][f] != t[f]:
            mism.append((f'snapshot.trial.{f}', f'{name} trial {i}: got {g["trials"][i][f]!r} expected {t[f]!r}'))
    for oname, exp in self.ops.items():
      got = snap['ops'].get(oname)
      if got is None:
        continue
      if exp is None:
        if got != ('err', 'NOT_FOUND'):
          mism.append(('snapshot.operation-survives-delete-study', f'{oname}: {got if not isinstance(got, dict) else "still readable"}'))
      elif got != exp:
        mism.append(('snapshot.operation', f'{oname}: stored operation differs from the one returned'))
    return mism

  def signature(self):
    """Compact state signature for the canonical hash."""
    sig = []
    for name in sorted(self.studies):
      st = self.studies[name]
      counts = {}
      for t in st['trials'].values():
        counts[t['state']] = counts.get(t['state'], 0) + 1
      sig.append((name, st['state'], tuple(sorted(counts.items())), len(st['md'])))
    return tuple(sig)


# ------------------------------------------------------------------ monitors

LEGAL_EDGES = {
    'REQUESTED': {'REQUESTED', 'ACTIVE'},
    'ACTIVE': {'ACTIVE', 'STOPPING', 'SUCCEEDED', 'INFEASIBLE'},
    'STOPPING': {'STOPPING', 'SUCCEEDED', 'INFEASIBLE'},
    'SUCCEEDED': {'SUCCEEDED'},
    'INFEASIBLE': {'INFEASIBLE'},
}
COMPLETED = ('SUCCEEDED', 'INFEASIBLE')


class Monitors:
  """Temporal clauses of C01, checked on consecutive snapshots.

  Independent of ModelService: only uses what the public API showed.
  """

  def __init__(self):
    self.prev = None

  def step(self, c, out, snap):
    """Returns violations [(clause, detail)] for the transition prev -> snap."""
    v = []
    prev = self.prev
    self.prev = copy.deepcopy(snap)
    if prev is None:
      return v
    kind = c['kind']
    if out[0] == 'err':
      a = {k: prev[k] for k in ('studies', 'owners')}
      b = {k: snap[k] for k in ('studies', 'owners')}
      if a != b:
        v.append(('failed-call-changed-data', f'{kind} failed with {out[1]} but stored data changed'))
    for name, cur in snap['studies'].items():
      old = prev['studies'].get(name)
      if old is None or not isinstance(cur['trials'], dict) or not isinstance(old['trials'], dict):
        continue
      for i, t in cur['trials'].items():
        if t['id'] != i or not t['name'].endswith(f'/trials/{i}'):
          v.append(('trial-identity', f'{name} trial {i}: id {t["id"]} name {t["name"]}'))
        o = old['trials'].get(i)
        if o is None:
          if old['trials'] and i <= max(old['trials']):
            v.append(('id-not-increasing', f'{name}: new trial {i} but max id was {max(old["trials"])}'))
          continue
        if t['state'] not in LEGAL_EDGES.get(o['state'], ()):
          v.append(('illegal-transition', f'{name} trial {i}: {o["state"]} -> {t["state"]} by {kind}'))
        if t['params'] != o['params']:
          v.append(('parameters-changed', f'{name} trial {i} by {kind}'))
        if o['state'] in COMPLETED:
          for f in ('state', 'meas', 'final', 'reason'):
            if t[f] != o[f]:
              v.append(('completed-trial-changed', f'{name} trial {i} field {f} by {kind}'))
        if o['client'] and t['client'] != o['client']:
          v.append(('client-reassigned', f'{name} trial {i}: {o["client"]} -> {t["client"]} by {kind}'))
      if kind not in ('DeleteTrial', 'DeleteStudy'):
        gone = set(old['trials']) - set(cur['trials'])
        if gone:
          v.append(('trial-vanished', f'{name}: trials {sorted(gone)} disappeared during {kind}'))
    return v
