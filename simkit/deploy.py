"""Deployments of the service for client-level simulations (C06, C08).

'local'  - VizierServicer used in-process (what clients get with NO_ENDPOINT)
'grpc'   - unmodified DefaultVizierServer on the simulated network
'split'  - unmodified DistributedPythiaVizierServer on the simulated network
           (Pythia calls back into Vizier through a second simulated channel)
"""
import datetime
import os
import shutil
import tempfile

from simkit import ops as O
from simkit import simnet

from vizier._src.service import pythia_service
from vizier._src.service import vizier_server
from vizier._src.service import vizier_service


def _members(obj):
  """Attribute values of an object that may be slotted (attrs) or plain."""
  out = []
  if hasattr(obj, '__dict__'):
    out += list(vars(obj).values())
  for klass in type(obj).__mro__:
    for name in getattr(klass, '__slots__', ()):
      try:
        out.append(getattr(obj, name))
      except AttributeError:
        pass
  return out


def _servicer_of(server):
  """The VizierServicer inside a server object, whatever the attribute is called."""
  for val in _members(server):
    if isinstance(val, vizier_service.VizierServicer):
      return val
  raise AttributeError('no VizierServicer found in the server object')


class Deployment:

  def __init__(self, kind, cfg, net, policy_factory=None, backend='ram'):
    self.kind = kind
    self.cfg = cfg
    O.set_ids(cfg)
    self.net = net
    self.backend = backend
    self.calls = {}
    self._dir = None
    url = {'ram': None, 'sqlmem': 'sqlite:///:memory:'}.get(backend)
    if backend == 'sqlfile':
      base = '/dev/shm' if os.path.isdir('/dev/shm') else None
      self._dir = tempfile.mkdtemp(prefix='verif-db-', dir=base)
      url = f'sqlite:///{self._dir}/v.db'
    recycle = datetime.timedelta(seconds=cfg.get('recycle_s', 60.0))
    kw = {}
    if policy_factory is not None:
      kw['policy_factory'] = policy_factory
    if kind == 'local':
      self.servicer = vizier_service.VizierServicer(
          database_url=url, early_stop_recycle_period=recycle)
      if policy_factory is not None:
        self.servicer.default_pythia_service = pythia_service.PythiaServicer(
            self.servicer, policy_factory=policy_factory)
      self.service = self.servicer  # what a client talks to
      self.server = None
    elif kind == 'grpc':
      self.server = vizier_server.DefaultVizierServer(
          database_url=url, early_stop_recycle_period=recycle, port=net.pick_port(), **kw)
      self.servicer = _servicer_of(self.server)
      self.service = self.server.stub
    elif kind == 'split':
      self.server = vizier_server.DistributedPythiaVizierServer(
          database_url=url, early_stop_recycle_period=recycle, port=net.pick_port(),
          pythia_port=net.pick_port(), **kw)
      self.servicer = _servicer_of(self.server)
      self.service = self.server.stub
    else:
      raise ValueError(kind)
    self.servicer.default_pythia_service = O.CountingPythia(
        self.servicer.default_pythia_service, self.calls)

  def destroy(self):
    if self.backend != 'ram':
      O.close_datastore(self.servicer.datastore)
    if self._dir:
      shutil.rmtree(self._dir, ignore_errors=True)


del simnet
