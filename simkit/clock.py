"""Simulated clock and entropy seams (DESIGN §2.2).

`SimClock` is the only clock the service reads while installed. It is
patched in through module globals that the code reaches by module name, so
nothing in /repo changes.  Clock faults are part of the plan (explicit ops),
never drawn at execution time.
"""
import contextlib
import datetime as _dt
import random as _random
import types

import numpy as _np
from google.protobuf import timestamp_pb2

EPOCH = 1_700_000_000.0


class SimClock:
  """Float seconds; every reading advances `tick` unless frozen."""

  def __init__(self, epoch=EPOCH, tick=0.001, tz_offset=0.0):
    # tz_offset: the simulated host's local time zone (seconds east of UTC). Naive "local now" readings
    # (datetime.now(), time.localtime) are shifted by it; UTC readings are not.
    self.tz_offset = float(tz_offset)
    self.now = float(epoch)
    self.tick = tick
    self.frozen = 0  # number of upcoming readings that do not advance
    self.coarse = False  # whole-second resolution
    self.reads = 0
    self.slept = 0.0
    self.sleeps = 0
    self.start = self.now
    self.faults = {}

  def read(self):
    self.reads += 1
    if self.frozen > 0:
      self.frozen -= 1
    else:
      self.now += self.tick
    return float(int(self.now)) if self.coarse else self.now

  def advance(self, dt):
    self.now += dt

  def sleep(self, dt):
    self.sleeps += 1
    self.slept += max(0.0, float(dt))
    self.now += max(0.0, float(dt))

  def fault(self, kind, arg=0.0):
    self.faults[kind] = self.faults.get(kind, 0) + 1
    if kind == 'jump_fwd':
      self.now += abs(arg)
    elif kind == 'jump_back':
      self.now -= abs(arg)
    elif kind == 'freeze':
      self.frozen += max(1, int(arg))
    elif kind == 'coarse_on':
      self.coarse = True
    elif kind == 'coarse_off':
      self.coarse = False
    else:
      raise ValueError(kind)

  @property
  def elapsed(self):
    return self.now - self.start


def _make_time_shim(clock):
  import time as real

  shim = types.SimpleNamespace()
  shim.time = clock.read
  shim.monotonic = clock.read
  shim.perf_counter = clock.read
  shim.sleep = clock.sleep
  shim.time_ns = lambda: int(clock.read() * 1e9)
  shim.strftime = real.strftime
  shim.gmtime = real.gmtime
  shim.localtime = real.localtime
  return shim


def _make_datetime_shim(clock):
  class SimDateTime(_dt.datetime):

    @classmethod
    def utcnow(cls):
      return _dt.datetime.utcfromtimestamp(clock.read())

    @classmethod
    def now(cls, tz=None):
      if tz is None:
        return _dt.datetime.utcfromtimestamp(clock.read() + clock.tz_offset)  # naive LOCAL time
      return _dt.datetime.fromtimestamp(clock.read(), tz)

    @classmethod
    def today(cls):
      return cls.now()

  shim = types.SimpleNamespace()
  for k in dir(_dt):
    if not k.startswith('__'):
      setattr(shim, k, getattr(_dt, k))
  shim.datetime = SimDateTime
  return shim


class _NpProxy:
  """`np` as seen by designers.random: RandomState(None) gets a derived seed."""

  def __init__(self, entropy):
    self._entropy = entropy
    self.random = _NpRandomProxy(entropy)

  def __getattr__(self, name):
    return getattr(_np, name)


class _NpRandomProxy:

  def __init__(self, entropy):
    self._entropy = entropy

  def RandomState(self, seed=None):  # pylint: disable=invalid-name
    if seed is None:
      seed = self._entropy.next_seed()
    return _np.random.RandomState(seed)

  def __getattr__(self, name):
    return getattr(_np.random, name)


class Entropy:
  """Stream standing in for OS entropy; rewindable for lock-step replicas."""

  def __init__(self, seed):
    self.seed = seed
    self.rewind()

  def rewind(self):
    self._rng = _random.Random(f'entropy:{self.seed}')
    self.draws = 0

  def next_seed(self):
    self.draws += 1
    return self._rng.randrange(2**31 - 1)


@contextlib.contextmanager
def installed(clock, entropy=None):
  """Patches every clock/entropy seam; restores on exit."""
  from vizier._src.algorithms.designers import quasi_random
  from vizier._src.algorithms.designers import random as random_designer
  from vizier._src.algorithms.designers.eagle_strategy import eagle_strategy
  from vizier._src.service import policy_factory
  from vizier._src.service import vizier_client
  from vizier._src.service import vizier_server
  from vizier._src.service import vizier_service

  tshim = _make_time_shim(clock)
  dshim = _make_datetime_shim(clock)

  def sim_now():
    ts = timestamp_pb2.Timestamp()
    t = clock.read()
    ts.seconds = int(t // 1)
    ts.nanos = int(round((t - int(t // 1)) * 1e6)) * 1000
    if ts.nanos >= 1_000_000_000:
      ts.seconds += 1
      ts.nanos -= 1_000_000_000
    return ts

  patches = [
      (vizier_service, '_get_current_time', sim_now),
      (vizier_service, 'datetime', dshim),
      (vizier_client, 'time', tshim),
      (vizier_server, 'time', tshim),
      (policy_factory, 'time', tshim),
      (quasi_random, 'time', tshim),
      (eagle_strategy, 'time', tshim),
  ]
  if entropy is not None:
    patches.append((random_designer, 'np', _NpProxy(entropy)))
  saved = []
  for mod, name, val in patches:
    if not hasattr(mod, name):
      # The module no longer reaches this seam by that name (a refactor):
      # nothing to patch there. Timestamps are masked in every oracle.
      continue
    saved.append((mod, name, getattr(mod, name)))
    setattr(mod, name, val)
  py_state = _random.getstate()
  np_state = _np.random.get_state()
  if entropy is not None:
    _random.seed(f'global:{entropy.seed}')
    _np.random.seed(entropy.next_seed())
  try:
    yield clock
  finally:
    for mod, name, val in reversed(saved):
      setattr(mod, name, val)
    _random.setstate(py_state)
    _np.random.set_state(np_state)
