"""Twin-run helpers for C13 / C14: designer registry, problems, evaluation."""
import copy
import json

import numpy as np

from vizier import algorithms as vza
from vizier import pyvizier as vz
from vizier._src.algorithms.designers import cmaes
from vizier._src.algorithms.designers import grid
from vizier._src.algorithms.designers import quasi_random
from vizier._src.algorithms.designers import random as random_designer
from vizier._src.algorithms.designers.eagle_strategy import eagle_strategy
from vizier._src.algorithms.evolution import nsga2
from vizier._src.algorithms.evolution import numpy_populations


def problem(space, metrics=1):
  p = vz.ProblemStatement()
  root = p.search_space.root
  if space == 'int10':
    root.add_int_param('x', 0, 9)
  elif space == 'mixed':
    root.add_float_param('a', 0.0, 1.0)
    root.add_int_param('i', -2, 3)
    root.add_categorical_param('c', ['x', 'y', 'z'])
    root.add_discrete_param('d', [0.1, 0.5, 2.0])
  elif space == 'f2':
    root.add_float_param('a', 0.0, 1.0)
    root.add_float_param('b', -1.0, 3.0)
  elif space == 'f3log':
    root.add_float_param('a', 0.0, 1.0)
    root.add_float_param('b', 1e-3, 10.0, scale_type=vz.ScaleType.LOG)
    root.add_float_param('c', -5.0, 5.0)
  elif space == 'cat2':
    # several categorical / discrete parameters: per-parameter work done in an
    # order that is not the declared one shows up here
    root.add_float_param('a', 0.0, 1.0)
    root.add_int_param('i', -2, 3)
    root.add_categorical_param('c', ['x', 'y', 'z'])
    root.add_categorical_param('k', ['p', 'q', 'r', 's'])
    root.add_categorical_param('zz', ['u', 'v'])
    root.add_discrete_param('d', [0.1, 0.5, 2.0])
  elif space in ('sibA', 'sibB'):
    # Two problems with the same parameter names and types (and the same bounds for `a`) that differ in
    # scale type and in the number of feasible values: state keyed too coarsely (per name / per type
    # layout / per trial id) is shared between a study on one and a study on the other.
    if space == 'sibA':
      root.add_float_param('a', 0.001, 1.0)
      root.add_discrete_param('d', [0.1, 0.5, 2.0])
      root.add_categorical_param('c', ['x', 'y', 'z'])
    else:
      root.add_float_param('a', 0.001, 1.0, scale_type=vz.ScaleType.LOG)
      root.add_discrete_param('d', [0.1 * k for k in range(1, 13)])
      root.add_categorical_param('c', ['x', 'y', 'z', 'u', 'v'])
  elif space == 'small':
    root.add_int_param('i', 0, 2)
    root.add_categorical_param('c', ['x', 'y'])
  else:
    raise ValueError(space)
  p.metric_information.append(vz.MetricInformation('m', goal=vz.ObjectiveMetricGoal.MAXIMIZE))
  if metrics == 2:
    p.metric_information.append(vz.MetricInformation('n', goal=vz.ObjectiveMetricGoal.MINIMIZE))
  return p


class CountingMutation:
  """Public-seam observation of NSGA-II's phase: counts mutate() calls."""

  def __init__(self, seed):
    self._inner = numpy_populations.LinfMutation(seed=seed, norm=0.001)
    self.calls = 0

  TOTAL = [0]  # all instances, for observations across rebuilt designers

  def mutate(self, population, count):
    self.calls += 1
    CountingMutation.TOTAL[0] += 1
    return self._inner.mutate(population, count)


# name -> (factory(problem, seed, extra), supported spaces, deterministic dump?)
def make(name, prob, seed, small=True):
  if name == 'grid':
    return grid.GridSearchDesigner(prob.search_space)
  if name == 'sgrid':
    return grid.GridSearchDesigner.from_problem(prob, seed=seed)
  if name == 'quasi':
    return quasi_random.QuasiRandomDesigner.from_problem(prob, seed=seed)
  if name == 'random':
    return random_designer.RandomDesigner.from_problem(prob, seed=seed)
  if name == 'eagle':
    return eagle_strategy.EagleStrategyDesigner(prob, seed=seed)
  if name == 'nsga2':
    kw = dict(population_size=5, first_survival_after=8) if small else {}
    mut = CountingMutation(seed)
    d = nsga2.NSGA2Designer(prob, seed=seed, adaptation=mut, **kw)
    d.verif_mutation = mut
    return d
  if name == 'cmaes':
    return cmaes.CMAESDesigner(prob, seed=seed)
  raise ValueError(name)


SIBLING = {'sibA': 'sibB', 'sibB': 'sibA', 'mixed': 'cat2', 'cat2': 'mixed', 'f2': 'f2', 'f3log': 'f3log',
           'int10': 'int10', 'small': 'small'}

SPACES = {
    'grid': ['int10', 'mixed', 'small'],
    'sgrid': ['int10', 'mixed', 'small', 'sibA', 'sibB'],
    'quasi': ['mixed', 'f2', 'f3log', 'int10', 'sibA', 'sibB'],
    'random': ['mixed', 'f2', 'int10', 'cat2', 'sibA', 'sibB'],
    'eagle': ['mixed', 'f2', 'f3log', 'cat2', 'cat2', 'sibA', 'sibB'],
    'nsga2': ['mixed', 'f2', 'f3log', 'cat2', 'sibA', 'sibB'],
    'cmaes': ['f2', 'f3log'],
}
DETERMINISTIC_DUMP = ('grid', 'sgrid', 'quasi', 'eagle')


def _plain(v):
  v = v.value if hasattr(v, 'value') else v
  if isinstance(v, str):
    return str(v)  # (numpy str_ -> str: same value, same repr)
  if isinstance(v, bool):
    return bool(v)
  try:
    return float(v)
  except (TypeError, ValueError):
    return v


def pkey(s):
  """Hashable parameters of a suggestion / trial, in plain Python types."""
  return tuple(sorted((k, _plain(v)) for k, v in s.parameters.items()))


def objective(params):
  tot = 0.0
  for k, v in params:
    tot += float(len(v)) * 0.37 if isinstance(v, str) else float(v) * (1.0 + 0.1 * (ord(k[0]) % 7))
  return tot


def complete(suggestion, tid, infeasible=False, metrics=1, value=None):
  t = suggestion.to_trial(tid)
  if infeasible:
    t.complete(vz.Measurement(), infeasibility_reason='harness: infeasible')
  else:
    val = objective(pkey(suggestion)) if value is None else value
    m = {'m': val}
    if metrics == 2:
      m['n'] = (val * 1.7) % 3.0
    t.complete(vz.Measurement(m))
  return t


def update(designer, trials):
  designer.update(vza.CompletedTrials(copy.deepcopy(trials)), vza.ActiveTrials([]))


def md_canon(md, drop=()):
  """Canonical, comparable form of a designer dump."""
  out = []
  for ns, k, v in md.all_items():
    if k in drop:
      continue
    out.append((tuple(ns), k, v if isinstance(v, str) else repr(v)))
  return sorted(out)


def cma_state(designer):
  md = designer.dump()
  st = json.loads(md.ns('cma')['state'])
  for key in list(st):
    if 'key' in key.lower() or 'rng' in key.lower() or 'rand' in key.lower():
      st.pop(key)
  return json.dumps(st, sort_keys=True)


def lineage(suggestion):
  """(parent ids, generations) an NSGA-II suggestion carries in its genes: which population members it
  was bred from. Unlike the gene values this does not depend on the (unpersisted) RNG."""
  try:
    genes = json.loads(suggestion.metadata.ns('nsga2')['values'])
    return (tuple(float(x) for x in np.ravel(genes['ids']['value'])),
            tuple(float(x) for x in np.ravel(genes['generations']['value'])))
  except Exception:  # pylint: disable=broad-except
    return None


def cma_counters(designer):
  """(generation counter, number of pending evaluated members): functions of HOW MANY trials were incorporated only."""
  from vizier.utils import json_utils  # pylint: disable=g-import-not-at-top
  md = designer.dump()
  st = json.loads(md.ns('cma')['state'], object_hook=json_utils.numpy_hook)
  pend = json.loads(md.ns('cma').get('pending_population', default='{}'), object_hook=json_utils.numpy_hook)
  return (int(np.asarray(st.get('g', 0))), len(pend.get('labels', [])))


def population_canon(designer):
  pop = designer.population
  parts = []
  for name in ('xs', 'ys', 'cs', 'ages', 'generations', 'ids'):
    if hasattr(pop, name):
      parts.append((name, np.asarray(getattr(pop, name)).round(12).tolist()))
  return json.dumps(parts, sort_keys=True)
