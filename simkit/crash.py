"""Crash images of the SQL-file service (DESIGN §2.6).

SQLAlchemy engine events number every SQL statement and commit of the live
server.  At each event the database file *and its -journal* are copied into
an image directory: because the server is the only writer and every write is a
completed write(2), that copy is byte-for-byte what `kill -9` at that instant
leaves behind (process death, not power loss).  Restart = brand-new servicer
on the image.
"""
import hashlib
import os
import shutil

from sqlalchemy import event


class CrashRecorder:

  def __init__(self, engine, dbdir, outdir):
    self.engine = engine
    self.dbdir = dbdir
    self.outdir = outdir
    self.cur = None
    self.n = 0
    self.images = []  # dicts: op, seq, tag, dir, journal(bool), key
    self.events = 0
    self._seen = {}
    self._listeners = [
        ('before_cursor_execute', self._before),
        ('after_cursor_execute', self._after),
        ('commit', self._commit),
        ('rollback', self._rollback),
    ]
    for name, fn in self._listeners:
      event.listen(engine, name, fn)

  def detach(self):
    for name, fn in self._listeners:
      try:
        event.remove(self.engine, name, fn)
      except Exception:  # pylint: disable=broad-except
        pass

  def arm(self, op_index):
    self.cur = op_index
    self.seq = 0
    self._seen = {}

  def disarm(self):
    self.cur = None

  def _before(self, conn, cursor, statement, parameters, context, executemany):
    self._snap('before:' + statement.split(None, 1)[0].upper())

  def _after(self, conn, cursor, statement, parameters, context, executemany):
    self._snap('after:' + statement.split(None, 1)[0].upper())

  def _commit(self, conn):
    self._snap('before:COMMIT')

  def _rollback(self, conn):
    self._snap('before:ROLLBACK')

  def mark(self, tag):
    self._snap(tag)

  def _snap(self, tag):
    if self.cur is None:
      return
    self.events += 1
    self.seq += 1
    files = sorted(f for f in os.listdir(self.dbdir) if f.startswith('v.db'))
    h = hashlib.sha256()
    blobs = []
    for f in files:
      with open(os.path.join(self.dbdir, f), 'rb') as fh:
        data = fh.read()
      blobs.append((f, data))
      h.update(f.encode())
      h.update(len(data).to_bytes(8, 'big'))
      h.update(data)
    key = h.hexdigest()
    journal = any(f.endswith('-journal') and len(d) > 0 for f, d in blobs)
    if key in self._seen:
      # Same bytes on disk as an earlier point of this op: same crash image.
      self._seen[key]['tags'].append(tag)
      return
    self.n += 1
    d = os.path.join(self.outdir, f'img{self.n}')
    os.mkdir(d)
    for f, data in blobs:
      with open(os.path.join(d, f), 'wb') as fh:
        fh.write(data)
    img = {'op': self.cur, 'seq': self.seq, 'tag': tag, 'tags': [tag], 'dir': d,
           'journal': journal, 'key': key}
    self._seen[key] = img
    self.images.append(img)


def find_engine(datastore):
  """The SQLAlchemy engine of a datastore, whatever the attribute is called."""
  import sqlalchemy  # pylint: disable=g-import-not-at-top
  for val in vars(datastore).values():
    if isinstance(val, sqlalchemy.engine.Engine):
      return val
  for val in vars(datastore).values():
    eng = getattr(val, 'engine', None)
    if isinstance(eng, sqlalchemy.engine.Engine):
      return eng
  raise AttributeError('no SQLAlchemy engine found on the datastore')


def copy_image(img_dir, dst):
  shutil.copytree(img_dir, dst)
  return dst
