"""Simulated gRPC transport (DESIGN §2.4).

`SimServer` implements the three methods vizier_server.py calls on a
grpc.Server; `SimChannel.unary_unary` runs the registered handler synchronously
after a real serialise/parse round trip and maps the outcome the way
grpc/_server.py does (read in grpcio 1.84):
  * handler returns normally with a non-OK code set  -> client RpcError(code,
    details) *and the handler ran to completion*;
  * handler raises -> code set so far else UNKNOWN; details set so far else
    "Exception calling application: <exc>";
  * handler returns None -> INTERNAL.
Transport faults (request lost / response lost / delay) are taken from an
explicit plan, never drawn here.
"""
import contextlib
import types

import grpc


# grpc (1.84, default channel args) refuses response metadata - which carries
# the status details - above a hard limit of 16 KiB: the client then sees
# RESOURCE_EXHAUSTED instead of the server's status. Between the 8 KiB soft
# and the 16 KiB hard limit the outcome is probabilistic; the harness never
# generates details in that band. Calibrated in simkit/calibrate.py.
HARD_METADATA_LIMIT = 16 * 1024


class SimRpcError(grpc.RpcError, grpc.Call):

  def __init__(self, code, details):
    super().__init__()
    if details is not None and len(str(details).encode('utf-8', 'replace')) > HARD_METADATA_LIMIT:
      code = grpc.StatusCode.RESOURCE_EXHAUSTED
      details = 'Stream removed (received metadata size exceeds hard limit)'
    self._c = code
    self._d = details

  def code(self):
    return self._c

  def details(self):
    return self._d

  def __str__(self):
    return f'<SimRpcError {self._c} {self._d!r}>'

  __repr__ = __str__

  def initial_metadata(self):
    return ()

  def trailing_metadata(self):
    return ()

  def is_active(self):
    return False

  def time_remaining(self):
    return None

  def cancel(self):
    return False

  def add_callback(self, callback):
    return False


class _Abort(Exception):
  pass


class SimServicerContext:

  def __init__(self):
    self.code = None
    self.details_ = None

  def set_code(self, code):
    self.code = code

  def set_details(self, details):
    self.details_ = details

  def abort(self, code, details):
    self.code = code
    self.details_ = details
    raise _Abort()

  def invocation_metadata(self):
    return ()

  def is_active(self):
    return True

  def time_remaining(self):
    return None

  def peer(self):
    return 'sim'


class Net:
  """Registry endpoint -> server, plus the transport fault plan."""

  def __init__(self, clock=None):
    self.servers = {}
    self.all_servers = []
    self.clock = clock
    self.calls = 0
    self.log = []
    # explicit faults: {call_index: ('req_lost'|'resp_lost'|'delay', arg)}
    self.faults = {}
    # explicit faults by method: list of {'method': substring, 'at': k | [a, b], 'kind': ...};
    # the k-th call (1-based) whose full method name contains the substring.
    self.method_faults = []
    self.method_calls = {}
    self.enabled = True
    self.fired = {}
    self._port = 40000

  def pick_port(self):
    self._port += 1
    return self._port


class SimServer:
  """grpc.Server stand-in. Concurrency semantics of grpc/_server.py (1.84), calibrated in calibrate.py:

  * `maximum_concurrent_rpcs=k`: an RPC arriving while k are being serviced (running or queued) is refused
    with RESOURCE_EXHAUSTED "Concurrent RPC limit exceeded!" - admission control, not queueing;
  * the executor's `max_workers=n`: at most n handlers run, further admitted RPCs wait for a worker.
  Both only matter when several client threads are in flight (the conc engine).
  """

  def __init__(self, net, max_workers=None, maximum_concurrent_rpcs=None):
    self.net = net
    self.endpoint = None
    self._generic = []
    self.maximum_concurrent_rpcs = maximum_concurrent_rpcs
    self.in_flight = 0
    self.pool = None
    if max_workers is not None:
      from simkit import conc  # pylint: disable=g-import-not-at-top
      self.pool = conc.SimSemaphore(int(max_workers), name=f'pool{len(net.all_servers)}')
    net.all_servers.append(self)

  def reset_concurrency(self):
    self.in_flight = 0
    if self.pool is not None:
      self.pool.reset()

  def add_generic_rpc_handlers(self, handlers):
    self._generic.extend(handlers)

  def add_insecure_port(self, endpoint):
    self.endpoint = endpoint
    return 1

  def start(self):
    self.net.servers[self.endpoint] = self

  def stop(self, grace=None):
    self.net.servers.pop(self.endpoint, None)

  def wait_for_termination(self, timeout=None):
    return True

  def lookup(self, method):
    details = types.SimpleNamespace(method=method, invocation_metadata=())
    for g in self._generic:
      h = g.service(details)
      if h is not None:
        return h
    return None


def _retry_policy(options):
  """(max_attempts, retryable status names) of a channel's service config, gRPC's client-side retries."""
  import json  # pylint: disable=g-import-not-at-top
  opts = dict(options or ())
  if not opts.get('grpc.enable_retries', 1) or 'grpc.service_config' not in opts:
    return None
  try:
    cfg = json.loads(opts['grpc.service_config'])
    for mc in cfg.get('methodConfig', []):
      rp = mc.get('retryPolicy')
      if rp:
        return (min(int(rp.get('maxAttempts', 1)), 5), set(rp.get('retryableStatusCodes', [])),
                float(str(rp.get('initialBackoff', '0.1s')).rstrip('s') or 0.1))
  except Exception:  # pylint: disable=broad-except
    return None
  return None


class SimChannel:

  def __init__(self, net, endpoint, options=None):
    self.net = net
    self.endpoint = endpoint
    self.retry = _retry_policy(options)

  def unary_unary(self, method, request_serializer=None, response_deserializer=None, **kw):
    net = self.net
    once = self._unary_unary_once(method, request_serializer, response_deserializer)
    if self.retry is None:
      return once
    max_attempts, retryable, backoff = self.retry

    def invoke_with_retries(request, timeout=None, metadata=None, **kw2):
      attempt = 1
      while True:
        try:
          return once(request, timeout=timeout, metadata=metadata, **kw2)
        except SimRpcError as e:
          if attempt >= max_attempts or e.code().name not in retryable:
            raise
          attempt += 1
          net.fired['channel-retry'] = net.fired.get('channel-retry', 0) + 1
          if net.clock is not None:
            net.clock.advance(backoff)

    return invoke_with_retries

  def _unary_unary_once(self, method, request_serializer=None, response_deserializer=None, **kw):
    net = self.net

    def invoke(request, timeout=None, metadata=None, **kw2):
      idx = net.calls
      net.calls += 1
      fault = net.faults.get(idx)
      if fault is None and net.method_faults and net.enabled:
        counted = set()
        for mf in net.method_faults:
          if mf['method'] in method and mf['method'] not in counted:
            counted.add(mf['method'])
            net.method_calls[mf['method']] = net.method_calls.get(mf['method'], 0) + 1
        for mf in net.method_faults:
          if mf['method'] in method:
            k = net.method_calls[mf['method']]
            at = mf['at']
            if at == k or (isinstance(at, list) and at[0] <= k <= at[1]):
              fault = (mf['kind'], mf.get('arg', 1.0))
              break
      srv = net.servers.get(self.endpoint)
      if srv is None:
        raise SimRpcError(grpc.StatusCode.UNAVAILABLE, 'failed to connect to all addresses')
      handler = srv.lookup(method)
      if handler is None:
        raise SimRpcError(grpc.StatusCode.UNIMPLEMENTED, 'Method not found!')
      wire = request_serializer(request)
      if fault and fault[0] == 'delay' and net.clock is not None:
        net.clock.advance(fault[1])
        net.fired['delay'] = net.fired.get('delay', 0) + 1
      if fault and fault[0] == 'req_lost':
        net.fired['req_lost'] = net.fired.get('req_lost', 0) + 1
        raise SimRpcError(grpc.StatusCode.UNAVAILABLE, 'sim: request lost')
      req = handler.request_deserializer(wire)
      ctx = SimServicerContext()
      net.log.append(method)
      if srv.maximum_concurrent_rpcs is not None and srv.in_flight >= srv.maximum_concurrent_rpcs:
        net.fired['rpc-refused-concurrency-limit'] = net.fired.get('rpc-refused-concurrency-limit', 0) + 1
        raise SimRpcError(grpc.StatusCode.RESOURCE_EXHAUSTED, 'Concurrent RPC limit exceeded!')
      srv.in_flight += 1
      try:
        if srv.pool is not None:
          srv.pool.acquire()  # waits for a worker thread of the server's executor
        try:
          resp = handler.unary_unary(req, ctx)
        finally:
          if srv.pool is not None:
            srv.pool.release()
      except _Abort:
        raise SimRpcError(ctx.code, ctx.details_) from None
      except Exception as e:  # pylint: disable=broad-except
        code = ctx.code if ctx.code not in (None, grpc.StatusCode.OK) else grpc.StatusCode.UNKNOWN
        details = ctx.details_ if ctx.details_ is not None else f'Exception calling application: {e}'
        raise SimRpcError(code, details) from None
      finally:
        srv.in_flight -= 1
      if fault and fault[0] == 'resp_lost':
        net.fired['resp_lost'] = net.fired.get('resp_lost', 0) + 1
        raise SimRpcError(grpc.StatusCode.UNAVAILABLE, 'sim: response lost')
      if ctx.code not in (None, grpc.StatusCode.OK):
        raise SimRpcError(ctx.code, ctx.details_ or '')
      if resp is None:
        raise SimRpcError(grpc.StatusCode.INTERNAL, 'Failed to serialize response!')
      return response_deserializer(handler.response_serializer(resp))

    return invoke

  def close(self):
    pass


class _Ready:

  def result(self, timeout=None):
    return None


class GrpcShim:
  """Stands in for the `grpc` module inside stubs_util / vizier_server."""

  def __init__(self, net):
    self._net = net

  def __getattr__(self, name):
    return getattr(grpc, name)

  def server(self, thread_pool=None, *a, maximum_concurrent_rpcs=None, **k):
    return SimServer(self._net, max_workers=getattr(thread_pool, '_max_workers', None),
                     maximum_concurrent_rpcs=maximum_concurrent_rpcs)

  def insecure_channel(self, endpoint, options=None, *a, **k):
    return SimChannel(self._net, endpoint, options=options)

  def channel_ready_future(self, channel):
    return _Ready()


def _clear_caches(module):
  for name in dir(module):
    f = getattr(module, name)
    if callable(f) and hasattr(f, 'cache_clear'):
      f.cache_clear()


@contextlib.contextmanager
def installed(net):
  """Points stubs_util / vizier_server at the simulated network."""
  from vizier._src.service import stubs_util
  from vizier._src.service import vizier_client
  from vizier._src.service import vizier_server

  shim = GrpcShim(net)
  saved = [(vizier_server, 'grpc', vizier_server.grpc), (stubs_util, 'grpc', stubs_util.grpc),
           (vizier_server, 'portpicker', vizier_server.portpicker)]
  vizier_server.grpc = shim
  stubs_util.grpc = shim
  vizier_server.portpicker = types.SimpleNamespace(pick_unused_port=net.pick_port)
  stubs_util.create_vizier_server_stub.cache_clear()
  stubs_util.create_pythia_server_stub.cache_clear()
  _clear_caches(vizier_client)
  try:
    yield net
  finally:
    for mod, name, val in saved:
      setattr(mod, name, val)
    stubs_util.create_vizier_server_stub.cache_clear()
    stubs_util.create_pythia_server_stub.cache_clear()
    _clear_caches(vizier_client)
