"""Minimal proto3 -> FileDescriptorProto compiler (prototype).

Supports exactly the subset of proto3 used by vizier/_src/service/*.proto:
syntax/package/import, message (nested), enum, oneof, optional/repeated fields,
reserved, options (parsed and dropped), service/rpc.
"""
import re
import sys
from google.protobuf import descriptor_pb2 as dpb

TOKEN_RE = re.compile(
    r'\s+|//[^\n]*|/\*.*?\*/|'
    r'(?P<str>"(?:[^"\\]|\\.)*"|\'(?:[^\'\\]|\\.)*\')|'
    r'(?P<id>[A-Za-z_][A-Za-z0-9_.]*)|'
    r'(?P<num>-?[0-9][0-9a-zA-Z.+-]*)|'
    r'(?P<sym>[{}\[\]()<>=;,.:-])',
    re.S,
)

SCALARS = {
    'double': dpb.FieldDescriptorProto.TYPE_DOUBLE,
    'float': dpb.FieldDescriptorProto.TYPE_FLOAT,
    'int64': dpb.FieldDescriptorProto.TYPE_INT64,
    'uint64': dpb.FieldDescriptorProto.TYPE_UINT64,
    'int32': dpb.FieldDescriptorProto.TYPE_INT32,
    'fixed64': dpb.FieldDescriptorProto.TYPE_FIXED64,
    'fixed32': dpb.FieldDescriptorProto.TYPE_FIXED32,
    'bool': dpb.FieldDescriptorProto.TYPE_BOOL,
    'string': dpb.FieldDescriptorProto.TYPE_STRING,
    'bytes': dpb.FieldDescriptorProto.TYPE_BYTES,
    'uint32': dpb.FieldDescriptorProto.TYPE_UINT32,
    'sfixed32': dpb.FieldDescriptorProto.TYPE_SFIXED32,
    'sfixed64': dpb.FieldDescriptorProto.TYPE_SFIXED64,
    'sint32': dpb.FieldDescriptorProto.TYPE_SINT32,
    'sint64': dpb.FieldDescriptorProto.TYPE_SINT64,
}


def tokenize(text):
  pos, out = 0, []
  while pos < len(text):
    m = TOKEN_RE.match(text, pos)
    if not m:
      raise SyntaxError(f'bad char at {pos}: {text[pos:pos+30]!r}')
    pos = m.end()
    if m.lastgroup:
      out.append((m.lastgroup, m.group(m.lastgroup)))
  return out


class Parser:

  def __init__(self, text, filename):
    self.toks = tokenize(text)
    self.i = 0
    self.fd = dpb.FileDescriptorProto(name=filename, syntax='proto3')
    # (scope_fqn, FieldDescriptorProto, typename) to resolve afterwards.
    self.pending = []
    self.pending_rpc = []
    # fqn -> 'message' | 'enum' for symbols defined here.
    self.symbols = {}

  def peek(self):
    return self.toks[self.i][1] if self.i < len(self.toks) else None

  def next(self):
    t = self.toks[self.i]
    self.i += 1
    return t[1]

  def expect(self, s):
    t = self.next()
    if t != s:
      raise SyntaxError(f'expected {s!r} got {t!r} at token {self.i}')

  def skip_balanced(self, open_, close):
    depth = 1
    while depth:
      t = self.next()
      if t == open_:
        depth += 1
      elif t == close:
        depth -= 1

  def skip_option_stmt(self):
    # after 'option'
    while True:
      t = self.next()
      if t == '{':
        self.skip_balanced('{', '}')
      elif t == ';':
        return

  def skip_field_options(self):
    if self.peek() == '[':
      self.next()
      self.skip_balanced('[', ']')

  def parse_file(self):
    while self.peek() is not None:
      t = self.next()
      if t == 'syntax':
        self.expect('=')
        assert self.next().strip('"\'') == 'proto3'
        self.expect(';')
      elif t == 'package':
        self.fd.package = self.next()
        self.expect(';')
      elif t == 'import':
        name = self.next()
        if name in ('public', 'weak'):
          raise SyntaxError('public/weak imports unsupported')
        self.fd.dependency.append(name.strip('"\''))
        self.expect(';')
      elif t == 'option':
        self.skip_option_stmt()
      elif t == 'message':
        self.parse_message(self.fd.message_type.add(), self.fd.package)
      elif t == 'enum':
        self.parse_enum(self.fd.enum_type.add(), self.fd.package)
      elif t == 'service':
        self.parse_service(self.fd.service.add())
      elif t == ';':
        pass
      else:
        raise SyntaxError(f'unexpected top-level token {t!r}')
    return self.fd

  def parse_enum(self, ed, scope):
    ed.name = self.next()
    self.symbols[f'{scope}.{ed.name}'] = 'enum'
    self.expect('{')
    while self.peek() != '}':
      t = self.next()
      if t == 'option':
        self.skip_option_stmt()
      elif t == 'reserved':
        while self.next() != ';':
          pass
      elif t == ';':
        pass
      else:
        self.expect('=')
        v = ed.value.add(name=t, number=int(self.next(), 0))
        del v
        self.skip_field_options()
        self.expect(';')
    self.expect('}')

  def parse_field(self, md, scope, first_tok, oneof_index=None):
    label = dpb.FieldDescriptorProto.LABEL_OPTIONAL
    proto3_optional = False
    t = first_tok
    if t == 'repeated':
      label = dpb.FieldDescriptorProto.LABEL_REPEATED
      t = self.next()
    elif t == 'optional':
      proto3_optional = True
      t = self.next()
    elif t == 'map':
      raise SyntaxError('map fields unsupported')
    typename = t
    name = self.next()
    self.expect('=')
    number = int(self.next(), 0)
    self.skip_field_options()
    self.expect(';')
    f = md.field.add(name=name, number=number, label=label)
    f.json_name = _json_name(name)
    if typename in SCALARS:
      f.type = SCALARS[typename]
    else:
      self.pending.append((scope, f, typename))
    if oneof_index is not None:
      f.oneof_index = oneof_index
    if proto3_optional:
      f.proto3_optional = True
    return f

  def parse_message(self, md, scope):
    md.name = self.next()
    fqn = f'{scope}.{md.name}'
    self.symbols[fqn] = 'message'
    self.expect('{')
    while self.peek() != '}':
      t = self.next()
      if t == 'option':
        self.skip_option_stmt()
      elif t == 'message':
        self.parse_message(md.nested_type.add(), fqn)
      elif t == 'enum':
        self.parse_enum(md.enum_type.add(), fqn)
      elif t == 'reserved':
        while True:
          tok = self.next()
          if tok == ';':
            break
          if tok == ',':
            continue
          if tok.startswith(('"', "'")):
            md.reserved_name.append(tok.strip('"\''))
            continue
          start = int(tok, 0)
          end = start
          if self.peek() == 'to':
            self.next()
            e = self.next()
            end = 536870911 if e == 'max' else int(e, 0)
          md.reserved_range.add(start=start, end=end + 1)
      elif t == 'oneof':
        od = md.oneof_decl.add(name=self.next())
        del od
        idx = len(md.oneof_decl) - 1
        self.expect('{')
        while self.peek() != '}':
          ft = self.next()
          if ft == 'option':
            self.skip_option_stmt()
          elif ft == ';':
            pass
          else:
            self.parse_field(md, fqn, ft, oneof_index=idx)
        self.expect('}')
      elif t == ';':
        pass
      elif t in ('extensions', 'extend', 'group'):
        raise SyntaxError(f'{t} unsupported')
      else:
        self.parse_field(md, fqn, t)
    self.expect('}')
    # proto3 optional: synthetic oneofs go after all real oneofs.
    for f in md.field:
      if f.proto3_optional:
        md.oneof_decl.add(name='_' + f.name)
        f.oneof_index = len(md.oneof_decl) - 1

  def parse_service(self, sd):
    sd.name = self.next()
    self.expect('{')
    while self.peek() != '}':
      t = self.next()
      if t == 'option':
        self.skip_option_stmt()
      elif t == ';':
        pass
      elif t == 'rpc':
        m = sd.method.add(name=self.next())
        self.expect('(')
        it = self.next()
        if it == 'stream':
          m.client_streaming = True
          it = self.next()
        self.expect(')')
        self.expect('returns')
        self.expect('(')
        ot = self.next()
        if ot == 'stream':
          m.server_streaming = True
          ot = self.next()
        self.expect(')')
        self.pending_rpc.append((m, it, ot))
        if self.peek() == '{':
          self.next()
          self.skip_balanced('{', '}')
        else:
          self.expect(';')
      else:
        raise SyntaxError(f'unexpected token in service: {t!r}')
    self.expect('}')


def _json_name(name):
  parts = name.split('_')
  return parts[0] + ''.join(p[:1].upper() + p[1:] for p in parts[1:])


def _collect_symbols(fd, out):
  def walk_msg(md, scope):
    fqn = f'{scope}.{md.name}' if scope else md.name
    out[fqn] = 'message'
    for e in md.enum_type:
      out[f'{fqn}.{e.name}'] = 'enum'
    for n in md.nested_type:
      walk_msg(n, fqn)
  for md in fd.message_type:
    walk_msg(md, fd.package)
  for e in fd.enum_type:
    out[f'{fd.package}.{e.name}' if fd.package else e.name] = 'enum'


def resolve(parser, dep_fds):
  """C++-style scoped name resolution for field and rpc types."""
  symbols = dict(parser.symbols)
  for d in dep_fds:
    _collect_symbols(d, symbols)

  def lookup(scope, name):
    if name.startswith('.'):
      if name[1:] in symbols:
        return name[1:]
      raise KeyError(name)
    first = name.split('.')[0]
    parts = scope.split('.') if scope else []
    while True:
      prefix = '.'.join(parts)
      cand_first = f'{prefix}.{first}' if prefix else first
      if cand_first in symbols or any(
          s.startswith(cand_first + '.') for s in symbols
      ):
        cand = f'{prefix}.{name}' if prefix else name
        if cand in symbols:
          return cand
        # C++ protoc would fail here; we continue outward for leniency only
        # when the first component is a package, not a type.
        if cand_first in symbols:
          raise KeyError(f'{name} resolved to non-existent {cand}')
      if not parts:
        break
      parts.pop()
    raise KeyError(f'cannot resolve {name} in {scope}')

  for scope, f, typename in parser.pending:
    fqn = lookup(scope, typename)
    f.type_name = '.' + fqn
    f.type = (
        dpb.FieldDescriptorProto.TYPE_MESSAGE
        if symbols[fqn] == 'message'
        else dpb.FieldDescriptorProto.TYPE_ENUM
    )
  for m, it, ot in parser.pending_rpc:
    m.input_type = '.' + lookup(parser.fd.package, it)
    m.output_type = '.' + lookup(parser.fd.package, ot)
  return parser.fd
