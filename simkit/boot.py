"""Bootstrap: make the real google/vizier service importable in this sandbox.

Importing this module (after `pin_env()` has re-exec'd the interpreter) does:
  * put the equinox stand-in and (optionally) an alternative repo root
    (VERIF_REPO, default /repo) on sys.path,
  * compile the repo's *current* .proto files with protoc_lite and splice the
    generated modules into `vizier._src.service.__path__`,
  * fix jax_enable_x64 (the repo flips it inside PythiaServicer), silence
    absl logging.
Nothing in /repo is edited. See DESIGN.md §1.
"""
import os
import sys

VERIF_ROOT = os.path.dirname(os.path.dirname(os.path.abspath(__file__)))
REPO = os.environ.get('VERIF_REPO', '/repo')
GUARD = 'GOOGLE_VIZIER_VERIF'

_PINNED = {
    'PYTHONHASHSEED': '0',
    'JAX_PLATFORMS': 'cpu',
    'XLA_FLAGS': '--xla_force_host_platform_device_count=1',
    'TF_CPP_MIN_LOG_LEVEL': '3',
    'OMP_NUM_THREADS': '1',
    'OPENBLAS_NUM_THREADS': '1',
    'MKL_NUM_THREADS': '1',
    'XLA_PYTHON_CLIENT_PREALLOCATE': 'false',
    GUARD: '1',
}


def pin_env(argv=None):
  """Re-exec the interpreter once with the pinned environment."""
  if os.environ.get('_VERIF_PINNED') == '1':
    return
  env = dict(os.environ)
  hashseed = env.get('VERIF_HASHSEED')  # selftest only: alternate hash seed
  env.update(_PINNED)
  if hashseed is not None:
    env['PYTHONHASHSEED'] = hashseed
  env['_VERIF_PINNED'] = '1'
  argv = argv or sys.argv
  os.execve(sys.executable, [sys.executable] + argv, env)


_booted = False


def boot():
  """Idempotent. Returns the generated-proto directory."""
  global _booted
  if _booted:
    return _booted
  if VERIF_ROOT not in sys.path:
    sys.path.insert(0, VERIF_ROOT)
  stubs = os.path.join(VERIF_ROOT, 'simkit', 'stubs')
  if stubs not in sys.path:
    sys.path.insert(0, stubs)
  if REPO != '/repo' or True:
    # The editable install resolves `vizier` to /repo through a meta-path
    # finder that runs after sys.path; an explicit entry wins, which is what
    # lets the mutation driver point at a scratch copy.
    if REPO not in sys.path:
      sys.path.insert(0, REPO)
  from simkit import build_pb

  src = os.path.join(REPO, 'vizier', '_src', 'service')
  try:
    out = build_pb.ensure(src, os.path.join(VERIF_ROOT, '.build'))
  except Exception as e:  # pylint: disable=broad-except
    sys.stderr.write(f'HARNESS-ERROR protoc_lite failed: {type(e).__name__}: {e}\n')
    raise SystemExit(2)
  import vizier._src.service as _svc

  if not os.path.realpath(_svc.__path__[0]).startswith(os.path.realpath(REPO)):
    sys.stderr.write(
        f'HARNESS-ERROR vizier imported from {_svc.__path__[0]}, expected {REPO}\n'
    )
    raise SystemExit(2)
  if out not in _svc.__path__:
    _svc.__path__.append(out)
  import absl.logging

  absl.logging.set_verbosity(absl.logging.FATAL)
  absl.logging.set_stderrthreshold('fatal')
  import logging

  logging.disable(logging.CRITICAL)
  import warnings

  warnings.filterwarnings('ignore')
  import jax

  jax.config.update('jax_enable_x64', True)
  _booted = out
  return out
