"""Sensitivity self-test (DESIGN §2.9): do the checks catch realistic breakage?

Two sources of mutants:
  * /verif/seeded/<id>/patch.diff (+ meta.json naming the property) - changes
    written by independent sub-agents that break a property while passing the
    existing tests;
  * the reverse of every `fix:` commit recorded in known_findings.json.
Each mutant is applied to a scratch copy of /repo's `vizier` package outside
/repo and /verif (VERIF_REPO points the bootstrap at it), the quick check of
the property is run with evidence redirected, exit 1 + VIOLATION is expected,
and the copy is deleted.   Usage: ./vcheck mutants [--tier quick] [ids...]
"""
import json
import os
import shutil
import subprocess
import sys
import tempfile
import time

from simkit import boot


def _mutants():
  out = []
  sdir = os.path.join(boot.VERIF_ROOT, 'seeded')
  if os.path.isdir(sdir):
    for name in sorted(os.listdir(sdir)):
      d = os.path.join(sdir, name)
      if os.path.exists(os.path.join(d, 'patch.diff')) and os.path.exists(os.path.join(d, 'meta.json')):
        meta = json.load(open(os.path.join(d, 'meta.json')))
        out.append({'id': 'seeded/' + name, 'patch': os.path.join(d, 'patch.diff'), 'reverse': False,
                    'properties': meta.get('checks') or [meta['property']]})
  bdir = os.path.join(sdir, 'benign')
  if os.path.isdir(bdir):
    which = json.load(open(os.path.join(bdir, 'checks.json')))
    for name in sorted(which):
      out.append({'id': 'benign/' + name, 'patch': os.path.join(bdir, name + '.diff'), 'reverse': False,
                  'properties': which[name], 'benign': True})
  kf = json.load(open(os.path.join(boot.VERIF_ROOT, 'known_findings.json')))['findings']
  for f in kf:
    if f.get('status') == 'fixed' and f.get('commit'):
      out.append({'id': 'revert/' + f['id'], 'commit': f['commit'], 'reverse': True, 'properties': [f['property']]})
  return out


def _apply(m, dst):
  """Materialises the mutated tree in dst/vizier. Returns (ok, message)."""
  if m['reverse']:
    # A later commit may have touched the same lines, so revert with git's
    # three-way machinery in a throw-away worktree, then copy the package out.
    wt = tempfile.mkdtemp(prefix='verif-mutant-wt-', dir='/dev/shm' if os.path.isdir('/dev/shm') else None)
    os.rmdir(wt)
    try:
      subprocess.run(['git', '-C', boot.REPO, 'worktree', 'add', '--detach', '-f', wt, 'HEAD'],
                     capture_output=True, text=True, check=True)
      p = subprocess.run(['git', '-C', wt, 'revert', '--no-commit', m['commit']], capture_output=True, text=True)
      if p.returncode != 0:
        return False, 'revert conflicts with later commits: ' + (p.stdout + p.stderr).strip().splitlines()[-1]
      shutil.copytree(os.path.join(wt, 'vizier'), os.path.join(dst, 'vizier'),
                      ignore=shutil.ignore_patterns('__pycache__'))
      return True, ''
    finally:
      subprocess.run(['git', '-C', boot.REPO, 'worktree', 'remove', '--force', wt], capture_output=True)
      shutil.rmtree(wt, ignore_errors=True)
  shutil.copytree(os.path.join(boot.REPO, 'vizier'), os.path.join(dst, 'vizier'),
                  ignore=shutil.ignore_patterns('__pycache__'))
  p = subprocess.run(['patch', '-p1', '-d', dst, '--no-backup-if-mismatch', '-s'],
                     input=open(m['patch']).read(), capture_output=True, text=True)
  return p.returncode == 0, (p.stdout + p.stderr)[-500:]


def main(argv):
  tier = 'quick'
  want = []
  only_props = None  # --props C04,C12: only these checks
  confirm = False  # --confirm: minimise + fresh-interpreter replay of every violation (slow); default: list mode
  it = iter(argv)
  for a in it:
    if a == '--tier':
      tier = next(it)
    elif a == '--confirm':
      confirm = True
    elif a == '--props':
      only_props = set(next(it).split(','))
    else:
      want.append(a)
  rows = []
  for m in _mutants():
    if want and not any(w in m['id'] for w in want):
      continue
    base = '/dev/shm' if os.path.isdir('/dev/shm') else None
    dst = tempfile.mkdtemp(prefix='verif-mutant-', dir=base)
    evd = tempfile.mkdtemp(prefix='verif-mutant-ev-', dir=base)
    try:
      ok, msg = _apply(m, dst)
      if not ok:
        rows.append((m['id'], '-', 'NOT-APPLICABLE', 0.0, msg.strip().splitlines()[-1] if msg.strip() else ''))
        print('mutant %-55s %-4s %-13s %6.1fs %s' % rows[-1])
        continue
      for prop in m['properties']:
        if only_props is not None and prop not in only_props:
          continue
        env = dict(os.environ)
        env.pop('_VERIF_PINNED', None)
        env.update({'VERIF_REPO': dst, 'VERIF_EVIDENCE_DIR': evd})
        if not confirm:
          env['VERIF_LIST'] = '1'  # list distinct unlisted signatures, skip minimisation and replay
        t0 = time.time()
        p = subprocess.run([sys.executable, os.path.join(boot.VERIF_ROOT, 'vcheck'), prop, tier],
                           capture_output=True, text=True, env=env, timeout=3600)
        viol = [l for l in p.stdout.splitlines() if l.startswith('VIOLATION')]
        clause = [l.strip() for l in p.stdout.splitlines() if l.strip().startswith('clause=')]
        new_sigs = [l[8:] for l in p.stdout.splitlines() if l.startswith('SIG NEW ')]
        if not confirm:
          clause = [' '.join(x.split(' ')[1:]) for x in new_sigs]
        status = 'CAUGHT' if ((p.returncode == 1 and viol) or (p.returncode == 3 and new_sigs)) else (
            'HARNESS-ERROR' if p.returncode == 2 else 'MISSED')
        if m.get('benign') and 'HARNESS-ERROR' in p.stdout:
          status = 'HARNESS-ERROR'  # list mode returns 3 when a known finding is hit, which would hide it
        elif m.get('benign'):
          status = {'CAUGHT': 'FALSE-ALARM', 'MISSED': 'QUIET', 'HARNESS-ERROR': 'HARNESS-ERROR'}[status]
        rows.append((m['id'], prop, status, time.time() - t0, clause[0][:150] if clause else ''))
        print('mutant %-55s %-4s %-13s %6.1fs %s' % rows[-1])
        sys.stdout.flush()
    finally:
      shutil.rmtree(dst, ignore_errors=True)
      shutil.rmtree(evd, ignore_errors=True)
  caught = sum(1 for r in rows if r[2] == 'CAUGHT')
  quiet = sum(1 for r in rows if r[2] == 'QUIET')
  false_alarms = sum(1 for r in rows if r[2] == 'FALSE-ALARM')
  print(f'mutants: {caught} breaking (change, check) pairs caught; benign refactors: {quiet} quiet, {false_alarms} false alarms; {len(rows)} pairs in total')
  if not want and only_props is None:
    path = os.path.join(boot.VERIF_ROOT, 'seeded', 'SENSITIVITY.md')
    with open(path, 'w') as f:
      f.write('# Sensitivity table (written by `./vcheck mutants`, tier %s)\n\n' % tier)
      f.write('Each change is applied to a scratch copy of `/repo/vizier` and the listed quick check is run against it.\n')
      f.write(('Mode: every violation minimised and replayed in a fresh interpreter (exit 1 + VIOLATION).\n\n' if confirm else
               'Mode: list (`VERIF_LIST=1`): CAUGHT = the check reported at least one violation signature that is not a listed known finding; '
               'minimisation and fresh-interpreter replay were done when each change was harvested (see its meta.json) and can be repeated with `./vcheck mutants --confirm <id>`.\n\n'))
      f.write('| change | check | result | wall s | first clause |\n|---|---|---|---|---|\n')
      for r in rows:
        f.write('| %s | %s | %s | %.0f | %s |\n' % (r[0], r[1], r[2], r[3], r[4].replace('|', '/')))
      f.write('\n%d of %d (change, check) pairs caught. NOT-APPLICABLE = the revert of an early fix conflicts with later fix commits; those fixes are covered by the hand-written single-site reversals `seeded/M-*`.\n' % (caught, len(rows)))
  return 0
