"""Seeded thread scheduler (DESIGN §2.5).

Each concurrent client call runs in a real thread; threads are parked on
private semaphores and exactly one is released at a time (baton passing), so
the interleaving is the scheduler's decision and replays exactly.

Pre-emption points: every datastore method call (DSProxy), every acquire and
release of a lock created through the `threading` shim that replaces the
`threading` name in vizier_service / ram_datastore / sql_datastore (so a lock
added by a refactor is covered too), and before/after the Pythia call.
"""
import contextlib
import random
import threading as _threading

_ACTIVE = [None]  # the scheduler currently running a batch, if any


class HarnessHang(Exception):
  pass


class SimLock:
  """Lock whose acquire/release are scheduling points while a batch runs."""

  _n = [0]

  def __init__(self, name=None):
    SimLock._n[0] += 1
    self.name = name or f'L{SimLock._n[0]}'
    self.held = False
    self.owner = None

  def acquire(self, blocking=True, timeout=-1):
    s = _ACTIVE[0]
    if s is None or s.cur is None:
      if self.held:
        raise RuntimeError(f'sequential code blocked on held lock {self.name}')
      self.held = True
      return True
    s.yield_('acq:' + self.kind)
    while self.held:
      s.cur['blocked_on'] = self
      s.stats['blocked'] = s.stats.get('blocked', 0) + 1
      s.yield_('blocked:' + self.kind)
    self.held = True
    self.owner = s.cur['name']
    return True

  def release(self):
    self.held = False
    self.owner = None
    s = _ACTIVE[0]
    if s is not None and s.cur is not None:
      s.yield_('rel:' + self.kind)

  def locked(self):
    return self.held

  @property
  def kind(self):
    return self.name

  def __enter__(self):
    self.acquire()
    return True

  def __exit__(self, *a):
    self.release()


class SimSemaphore:
  """Counting semaphore with SimLock's scheduling behaviour (a server's worker-thread pool)."""

  def __init__(self, n, name='pool'):
    self.n = n
    self.free = n
    self.name = name

  @property
  def held(self):  # what Sched looks at to decide whether a blocked thread can run
    return self.free <= 0

  def acquire(self):
    s = _ACTIVE[0]
    if s is None or s.cur is None:
      if self.free <= 0:
        raise RuntimeError(f'sequential code blocked on exhausted pool {self.name}')
      self.free -= 1
      return
    s.yield_('acq:' + self.name)
    while self.free <= 0:
      s.cur['blocked_on'] = self
      s.stats['blocked'] = s.stats.get('blocked', 0) + 1
      s.yield_('blocked:' + self.name)
    self.free -= 1

  def release(self):
    self.free += 1
    s = _ACTIVE[0]
    if s is not None and s.cur is not None:
      s.yield_('rel:' + self.name)

  def reset(self):
    self.free = self.n


class ThreadingShim:
  """Stands in for the `threading` module inside the service modules."""

  def __init__(self, tag):
    self._tag = tag

  def Lock(self):  # pylint: disable=invalid-name
    return SimLock(self._tag)

  def RLock(self):  # pylint: disable=invalid-name
    return SimLock(self._tag)

  def __getattr__(self, name):
    return getattr(_threading, name)


@contextlib.contextmanager
def shims_installed():
  from vizier._src.service import ram_datastore
  from vizier._src.service import sql_datastore
  from vizier._src.service import vizier_service

  saved = [(m, m.threading) for m in (vizier_service, ram_datastore, sql_datastore) if hasattr(m, 'threading')]
  for m, tag in ((vizier_service, 'svc'), (ram_datastore, 'ds'), (sql_datastore, 'ds')):
    if hasattr(m, 'threading'):
      m.threading = ThreadingShim(tag)
  try:
    yield
  finally:
    for m, t in saved:
      m.threading = t


class DSProxy:
  """Delegating proxy: every datastore method call is a pre-emption point."""

  def __init__(self, ds):
    object.__setattr__(self, '_ds', ds)

  def __getattr__(self, n):
    f = getattr(self._ds, n)
    if not callable(f) or n.startswith('_'):
      return f

    def w(*a, **k):
      s = _ACTIVE[0]
      if s is not None and s.cur is not None:
        s.yield_('ds.' + n)
        if n in ('create_trial', 'delete_trial') and a:
          # which trial names were deleted / created, in order (id re-use inside a batch is a known defect)
          s.name_events.append((n, getattr(a[0], 'name', a[0])))
      return f(*a, **k)

    return w

  def __setattr__(self, n, v):
    setattr(self._ds, n, v)


class PythiaProxy:

  def __init__(self, inner):
    self._inner = inner

  def _wrap(self, name, request):
    s = _ACTIVE[0]
    if s is not None and s.cur is not None:
      s.yield_('pythia.before')
    try:
      return getattr(self._inner, name)(request)
    finally:
      if s is not None and s.cur is not None:
        s.yield_('pythia.after')

  def Suggest(self, request, context=None):  # pylint: disable=invalid-name
    return self._wrap('Suggest', request)

  def EarlyStop(self, request, context=None):  # pylint: disable=invalid-name
    return self._wrap('EarlyStop', request)

  def Ping(self, request, context=None):  # pylint: disable=invalid-name
    return self._inner.Ping(request)


READ_POINTS = ('ds.max_trial_id', 'ds.get_trial', 'ds.load_study', 'ds.list_trials',
               'ds.list_suggestion_operations', 'ds.max_suggestion_operation_number',
               'ds.list_studies', 'ds.get_early_stopping_operation')


class Sched:
  """Runs a set of thunks under one explicit or seeded schedule."""

  def __init__(self, policy=None, explicit=None):
    self.policy = policy or {'kind': 'sticky', 'seed': 0, 'p': 0.85}
    self.rng = random.Random(self.policy.get('seed', 0))
    self.explicit = list(explicit) if explicit is not None else None
    self.pos = 0
    self.tasks = {}
    self.cur = None
    self.trace = []
    self.name_events = []
    self.choices = []
    self.main = _threading.Semaphore(0)
    self.last = None
    self.stats = {}
    self.steps = 0
    if self.policy.get('kind') == 'pct':
      self._prio = {}
      d = self.policy.get('d', 2)
      self._changes = sorted(self.rng.sample(range(1, 120), max(0, d - 1)))

  def spawn(self, name, fn):
    t = {'name': name, 'sem': _threading.Semaphore(0), 'done': False, 'blocked_on': None,
         'res': None, 'last_reason': None}

    def run():
      t['sem'].acquire()
      try:
        t['res'] = ('ok', fn())
      except BaseException as e:  # pylint: disable=broad-except
        t['res'] = ('exc', e)
      t['done'] = True
      self.main.release()

    th = _threading.Thread(target=run, daemon=True, name=f'sim-{name}')
    t['thread'] = th
    th.start()
    self.tasks[name] = t

  def yield_(self, why):
    t = self.cur
    if t is None:
      return
    t['last_reason'] = why
    self.trace.append((t['name'], why))
    self.main.release()
    if not t['sem'].acquire(timeout=120):
      raise HarnessHang('parked thread never resumed')

  def _pick(self, runnable):
    names = [x['name'] for x in runnable]
    if self.explicit is not None:
      if self.pos < len(self.explicit) and self.explicit[self.pos] in names:
        n = self.explicit[self.pos]
        self.pos += 1
        return runnable[names.index(n)]
      self.pos += 1
      # Exhausted or inapplicable choice: deterministic default = keep running
      # the same thread, else the first by name.
      if self.last in names:
        return runnable[names.index(self.last)]
      return runnable[0]
    kind = self.policy.get('kind', 'sticky')
    if kind == 'pct':
      for x in runnable:
        if x['name'] not in self._prio:
          self._prio[x['name']] = self.rng.random() + 1.0
      if self._changes and self.steps >= self._changes[0]:
        self._changes.pop(0)
        if self.last in self._prio:
          self._prio[self.last] = self.rng.random() * 0.5
      return max(runnable, key=lambda x: self._prio[x['name']])
    p = self.policy.get('p', 0.85)
    if kind == 'targeted' and self.last in names:
      lt = self.tasks[self.last]
      if lt['last_reason'] in READ_POINTS and len(names) > 1 and self.rng.random() < 0.5:
        others = [x for x in runnable if x['name'] != self.last]
        return self.rng.choice(others)
    if self.last in names and self.rng.random() < p:
      return runnable[names.index(self.last)]
    return self.rng.choice(runnable)

  def run(self):
    """Returns 'done' or 'DEADLOCK'."""
    _ACTIVE[0] = self
    try:
      while True:
        live = [t for t in self.tasks.values() if not t['done']]
        if not live:
          return 'done'
        runnable = sorted(
            (t for t in live if t['blocked_on'] is None or not t['blocked_on'].held),
            key=lambda x: x['name'])
        if not runnable:
          return 'DEADLOCK'
        t = self._pick(runnable)
        self.steps += 1
        if self.last is not None and self.last != t['name']:
          self.stats['switches'] = self.stats.get('switches', 0) + 1
        self.last = t['name']
        self.choices.append(t['name'])
        t['blocked_on'] = None
        self.cur = t
        t['sem'].release()
        if not self.main.acquire(timeout=120):
          raise HarnessHang(f'thread {t["name"]} did not yield or finish within 120 s')
        self.cur = None
        if self.steps > 5000:
          raise HarnessHang('schedule exceeded 5000 steps')
    finally:
      _ACTIVE[0] = None
      self.cur = None


def rmw_interleaved(trace):
  """True iff some thread's datastore op lies strictly inside another's first..last ds op."""
  first, last = {}, {}
  for i, (n, why) in enumerate(trace):
    if why.startswith('ds.'):
      first.setdefault(n, i)
      last[n] = i
  for i, (n, why) in enumerate(trace):
    if not why.startswith('ds.'):
      continue
    for m in first:
      if m != n and first[m] < i < last[m]:
        return True
  return False
