"""Harness policies behind the PolicyFactory seam (DESIGN §2.7).

* SequencePolicy  - deterministic algorithm whose output is a known function
  of a counter persisted in study metadata (namespace ':verif_seq').
* FaultyFactory   - wraps any base factory; on the k-th suggest / early_stop
  invocation raises a planned exception or changes the delivery (0, N-k, N+k)
  or attaches a MetadataDelta naming a missing trial.  The plan is explicit
  data; invocation counters live in the factory so they survive the
  per-request policy rebuild that the service performs.
* RecordingDesigner - PartiallySerializableDesigner logging every update().
"""
import contextlib
import grpc

from vizier import algorithms as vza
from vizier import pythia
from vizier import pyvizier as vz
from vizier._src.algorithms.policies import designer_policy as dp
from vizier._src.service import grpc_util
from vizier._src.service import policy_factory as service_policy_factory
from vizier.interfaces import serializable

from simkit import ops as O

SEQ_NS = 'verif_seq'


class HarnessAlgorithmError(Exception):
  """A bare Exception subclass raised by a misbehaving algorithm."""


def message_text(spec):
  """Text of an algorithm failure: what real algorithms put in exceptions (arrays, paths, non-ASCII)."""
  if not spec:
    return None
  k = spec.get('kind')
  if k == 'empty':
    return ''
  if k == 'multiline':
    return 'algorithm failed:\n  File "x.py", line 3\n\tvalue = {"a": [1, 2]}\r\n%s %d' % ('%', 100)
  if k == 'nonascii':
    return 'алгоритм: ошибка é 日本語 😀 ' + 'ß' * int(spec.get('n', 3))
  if k == 'long':
    return 'algorithm: array([' + '0.12345678, ' * (int(spec.get('n', 4000)) // 12) + '])'
  if k == 'long-nonascii':
    # multi-byte characters everywhere: any byte-based cut lands inside a character for most pads
    return 'x' * int(spec.get('pad', 0)) + '日' * (int(spec.get('n', 4500)) // 3)
  raise ValueError(k)


def make_exception(name, text=None):
  e = _make_exception(name)
  if text is None:
    return e
  if name == 'UnicodeDecodeError':
    return UnicodeDecodeError('utf-8', b'\xff', 0, 1, text)
  if name == 'RpcError':
    e.set_details(text)
    e.args = (text,)
    return e
  return type(e)(text)


def _make_exception(name):
  if name == 'ValueError':
    return ValueError('algorithm: bad value')
  if name == 'KeyError':
    return KeyError('algorithm: missing key')
  if name == 'RuntimeError':
    return RuntimeError('algorithm: runtime failure')
  if name == 'ZeroDivisionError':
    return ZeroDivisionError('algorithm: division by zero')
  if name == 'HarnessAlgorithmError':
    return HarnessAlgorithmError('algorithm: custom failure')
  if name == 'TemporaryPythiaError':
    return pythia.TemporaryPythiaError('algorithm: temporary')
  if name == 'InactivateStudyError':
    return pythia.InactivateStudyError('algorithm: inactivate')
  if name == 'RpcError':
    e = grpc_util.LocalRpcError('algorithm: rpc error')
    e.set_code(grpc.StatusCode.INTERNAL)
    e.set_details('algorithm: rpc error')
    return e
  if name == 'IndexError':
    return IndexError('algorithm: index')
  if name == 'AssertionError':
    return AssertionError('algorithm: assertion')
  builtin = {'NotImplementedError': NotImplementedError, 'TypeError': TypeError, 'AttributeError': AttributeError,
             'OSError': OSError, 'LookupError': LookupError, 'ArithmeticError': ArithmeticError,
             'StopIteration': StopIteration, 'TimeoutError': TimeoutError, 'MemoryError': MemoryError,
             'RecursionError': RecursionError, 'UnicodeDecodeError': None, 'ImportError': ImportError}
  if name == 'UnicodeDecodeError':
    return UnicodeDecodeError('utf-8', b'\xff', 0, 1, 'algorithm: bad bytes')
  if name in builtin:
    return builtin[name](f'algorithm: {name}')
  raise ValueError(name)


# What hosted algorithms really raise: the repo's own policies raise
# NotImplementedError from early_stop(); numerical code raises Arithmetic /
# Type / Attribute errors; Pythia has its own error classes; a remote call
# inside a policy raises RpcError.
EXCEPTION_TYPES = ['ValueError', 'KeyError', 'RuntimeError', 'ZeroDivisionError',
                   'HarnessAlgorithmError', 'TemporaryPythiaError', 'InactivateStudyError',
                   'RpcError', 'IndexError', 'AssertionError', 'NotImplementedError', 'NotImplementedError',
                   'TypeError', 'AttributeError', 'OSError', 'LookupError', 'ArithmeticError',
                   'StopIteration', 'TimeoutError', 'MemoryError', 'RecursionError', 'UnicodeDecodeError',
                   'ImportError']


class SequencePolicy(pythia.Policy):
  """x_k = param_values(space, k); k persisted in study metadata."""

  def __init__(self, supporter, space, log=None, over=0):
    self._supporter = supporter
    self._space = space
    self._log = log if log is not None else []
    self._over = over  # always delivers this many more suggestions than asked for

  def suggest(self, request):
    md = request.study_config.metadata.ns(SEQ_NS)
    k = int(md.get('n', default='0'))
    out = []
    count = request.count + self._over
    for i in range(count):
      out.append(vz.TrialSuggestion(O.param_values(self._space, k + i)))
    delta = vz.MetadataDelta()
    delta.on_study.ns(SEQ_NS)['n'] = str(k + count)
    self._log.append(('suggest', k, request.count))
    return pythia.SuggestDecision(out, metadata=delta)

  def early_stop(self, request):
    self._log.append(('early_stop', tuple(request.trial_ids)))
    return pythia.EarlyStopDecisions(
        [pythia.EarlyStopDecision(id=i, reason='seq', should_stop=False) for i in request.trial_ids],
        vz.MetadataDelta())


class SequenceFactory(pythia.PolicyFactory):

  def __init__(self, space, over=0):
    self.space = space
    self.log = []
    self.over = over

  def __call__(self, problem_statement, algorithm, policy_supporter, study_name):
    return SequencePolicy(policy_supporter, self.space, self.log, over=self.over)


class _FaultyPolicy(pythia.Policy):

  def __init__(self, factory, base, supporter):
    self._f = factory
    self._base = base
    self._supporter = supporter

  def suggest(self, request):
    f = self._f
    f.calls['suggest'] += 1
    k = f.calls['suggest']
    fault = f.take('suggest', k)
    dec = self._suggest(request, fault)
    f.deliveries.append((request.count, len(dec.suggestions)))
    return dec

  def _suggest(self, request, fault):
    f = self._f
    if fault is None:
      return self._base.suggest(request)
    kind = fault['kind']
    f.fired[f'{kind}@suggest'] = f.fired.get(f'{kind}@suggest', 0) + 1
    if kind.startswith('raise:'):
      raise make_exception(kind.split(':', 1)[1], message_text(fault.get('msg')))
    if kind.startswith('deliver:'):
      d = kind.split(':', 1)[1]
      want = 0 if d == '0' else max(0, request.count + int(d))
      if want > request.count:
        bigger = pythia.SuggestRequest(
            study_descriptor=vz.StudyDescriptor(
                config=request.study_config, guid=request.study_guid, max_trial_id=request.max_trial_id),
            count=want)
        return self._base.suggest(bigger)
      dec = self._base.suggest(request)
      return pythia.SuggestDecision(list(dec.suggestions)[:want], metadata=dec.metadata)
    if kind == 'bad-delta':
      dec = self._base.suggest(request)
      dec.metadata.on_trials[int(fault.get('trial', 987))].ns('verif_bad')['k'] = 'v'
      return dec
    raise ValueError(kind)

  def early_stop(self, request):
    f = self._f
    f.calls['early_stop'] += 1
    k = f.calls['early_stop']
    fault = f.take('early_stop', k)
    if fault is None:
      return self._base.early_stop(request)
    kind = fault['kind']
    f.fired[f'{kind}@early_stop'] = f.fired.get(f'{kind}@early_stop', 0) + 1
    if kind.startswith('raise:'):
      raise make_exception(kind.split(':', 1)[1], message_text(fault.get('msg')))
    if kind == 'bad-delta':
      dec = self._base.early_stop(request)
      dec.metadata.on_trials[int(fault.get('trial', 987))].ns('verif_bad')['k'] = 'v'
      return dec
    if kind == 'no-decision':
      return pythia.EarlyStopDecisions([], vz.MetadataDelta())
    raise ValueError(kind)


class FaultyFactory(pythia.PolicyFactory):
  """faults: list of {'site','at': int|'every'|[a,b], 'kind': ...}; mutable."""

  def __init__(self, base_factory, faults=()):
    self.base = base_factory
    self.faults = list(faults)
    self.calls = {'suggest': 0, 'early_stop': 0}
    self.fired = {}
    self.deliveries = []  # (asked, delivered) per successful suggest
    self.enabled = True

  def take(self, site, k):
    if not self.enabled:
      return None
    for flt in self.faults:
      if flt['site'] != site:
        continue
      at = flt['at']
      if at == 'every' or at == k or (isinstance(at, list) and at[0] <= k <= at[1]):
        return flt
    return None

  def __call__(self, problem_statement, algorithm, policy_supporter, study_name):
    base = self.base(problem_statement, algorithm, policy_supporter, study_name)
    return _FaultyPolicy(self, base, policy_supporter)


def base_factory(cfg):
  """Factory for cfg['algorithm']: SEQUENCE or a DefaultPolicyFactory name."""
  if cfg.get('algorithm') == 'SEQUENCE':
    return SequenceFactory(cfg.get('space', 'int10'), over=cfg.get('over', 0))
  return service_policy_factory.DefaultPolicyFactory()


# ---------------------------------------------------------------- recording

class RecordingDesigner(vza.PartiallySerializableDesigner):
  """Logs the ids given to update(); persists a tiny state (a counter)."""

  LOG = None  # set by the harness: list to append to
  SPACE = 'int10'

  def __init__(self, problem, seed=None):
    del seed
    self.n = 0
    self.lineage = None
    self.fresh = True  # no state was loaded into this instance ...
    self.updated = False  # ... and it has not been updated yet

  def update(self, completed, all_active):
    type(self).LOG.append({
        'event': 'update', 'fresh': self.fresh and not self.updated, 'n': self.n,
        'completed': sorted(t.id for t in completed.trials),
        'completed_order': [t.id for t in completed.trials],
        'completed_x': {t.id: _x_of(t) for t in completed.trials},
        'completed_content': {t.id: content_of(t) for t in completed.trials},
        'active': sorted(t.id for t in all_active.trials),
    })
    self.updated = True

  def suggest(self, count=None):
    out = []
    for _ in range(count or 1):
      out.append(vz.TrialSuggestion(O.param_values(type(self).SPACE, self.n)))
      self.n += 1
    type(self).LOG.append({'event': 'suggest', 'count': count, 'n': self.n})
    return out

  def dump(self):
    md = vz.Metadata()
    md['n'] = str(self.n)
    return md

  def load(self, md):
    if 'n' not in md:
      raise serializable.HarmlessDecodeError('no recorded state')
    try:
      self.n = int(md['n'])
    except ValueError as e:
      raise serializable.HarmlessDecodeError('bad recorded state') from e
    self.fresh = False


@contextlib.contextmanager
def recording_real_designers():
  """Records what the designers hosted by the DEFAULT policy factory are given.

  Wraps the public update() / load() of grid, quasi-random and eagle designers
  (class-level, restored on exit); events go to RecordingDesigner.LOG in the
  same format as RecordingDesigner's own.
  """
  from vizier._src.algorithms.designers import grid  # pylint: disable=g-import-not-at-top
  from vizier._src.algorithms.designers import quasi_random  # pylint: disable=g-import-not-at-top
  from vizier._src.algorithms.designers.eagle_strategy import eagle_strategy  # pylint: disable=g-import-not-at-top
  classes = [grid.GridSearchDesigner, quasi_random.QuasiRandomDesigner, eagle_strategy.EagleStrategyDesigner]
  state = {}  # id(instance) -> flags; the instance is kept referenced so that ids are not re-used
  saved = []

  def flags(inst):
    return state.setdefault(id(inst), {'ref': inst, 'loaded': False, 'updated': False})

  for cls in classes:
    orig_update, orig_load = cls.update, cls.load

    def update(self, completed, all_active, _orig=orig_update):
      st = flags(self)
      RecordingDesigner.LOG.append({
          'event': 'update', 'fresh': not st['loaded'] and not st['updated'], 'n': None,
          'completed': sorted(t.id for t in completed.trials),
          'completed_order': [t.id for t in completed.trials],
          'completed_content': {t.id: content_of(t) for t in completed.trials},
          'active': sorted(t.id for t in all_active.trials),
      })
      st['updated'] = True
      return _orig(self, completed, all_active)

    def load(self, metadata, _orig=orig_load):
      out = _orig(self, metadata)
      flags(self)['loaded'] = True  # only reached when the state was decoded
      return out

    saved.append((cls, orig_update, orig_load))
    cls.update, cls.load = update, load
  try:
    yield
  finally:
    for cls, u, l in saved:
      cls.update, cls.load = u, l
    state.clear()


def content_of(t):
  """What a delivered (or stored) completed trial says: parameters, final metrics, infeasibility."""
  try:
    fm = None
    if t.final_measurement is not None:
      fm = tuple(sorted((k, round(float(v.value), 9)) for k, v in t.final_measurement.metrics.items()))
    md = tuple(sorted((tuple(ns), k, v if isinstance(v, str) else repr(v)) for ns, k, v in t.metadata.all_items()))
    return (_x_of(t), fm, bool(t.infeasible), md)
  except Exception:  # pylint: disable=broad-except
    return None


def _x_of(t):
  try:
    return tuple(sorted((k, v.value) for k, v in t.parameters.items()))
  except Exception:  # pylint: disable=broad-except
    return None


class RecordingFactory(pythia.PolicyFactory):
  """mode: 'serializable' (PartiallySerializableDesignerPolicy) or 'rebuild' (DesignerPolicy)."""

  def __init__(self, mode='serializable'):
    self.mode = mode

  def __call__(self, problem_statement, algorithm, policy_supporter, study_name):
    if self.mode == 'serializable':
      return dp.PartiallySerializableDesignerPolicy(
          problem_statement, policy_supporter, RecordingDesigner)
    return dp.DesignerPolicy(policy_supporter, RecordingDesigner, use_seeding=False)
