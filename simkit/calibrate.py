"""Calibration of simnet against a real loopback grpc.server (DESIGN §2.4).

A fixed list of cases - real VizierServicer RPCs taking the normal, aborting
and error_details paths, plus a synthetic servicer whose handlers return /
raise / set a code then return / set a code then raise / abort / return None -
is executed over both transports; (status code, details prefix, server-side
effect) must be identical.  A mismatch is a harness error, never a VIOLATION.
"""
from concurrent import futures

import grpc
import portpicker

from simkit import ops as O
from simkit import simnet

from vizier._src.service import study_pb2
from vizier._src.service import vizier_service
from vizier._src.service import vizier_service_pb2 as vs
from vizier._src.service import vizier_service_pb2_grpc as vs_grpc


class Synthetic(vs_grpc.VizierServiceServicer):
  """Handlers selected by the display_name of a CreateStudy request."""

  def __init__(self):
    self.effects = 0

  def CreateStudy(self, request, context):  # pylint: disable=invalid-name
    mode = request.study.display_name
    if mode == 'return':
      self.effects += 1
      return study_pb2.Study(name='ok')
    if mode == 'raise':
      raise ValueError('boom')
    if mode == 'setcode-return':
      context.set_code(grpc.StatusCode.FAILED_PRECONDITION)
      context.set_details('nope')
      self.effects += 1  # the handler keeps running
      return study_pb2.Study(name='ran-to-completion')
    if mode == 'setcode-raise':
      context.set_code(grpc.StatusCode.NOT_FOUND)
      context.set_details('gone')
      raise KeyError('x')
    if mode == 'abort':
      context.abort(grpc.StatusCode.ALREADY_EXISTS, 'dup')
    if mode == 'none':
      return None
    if mode == 'abort-4k-details':
      context.abort(grpc.StatusCode.FAILED_PRECONDITION, 'x' * 4000)
    if mode == 'abort-24k-details':
      context.abort(grpc.StatusCode.FAILED_PRECONDITION, 'x' * 24000)
    raise AssertionError(mode)


def _observe(f, req):
  try:
    r = f(req)
    return ('ok', type(r).__name__, getattr(r, 'name', '') or getattr(r, 'error_details', '') and 'error_details')
  except grpc.RpcError as e:
    return ('err', str(e.code()), (e.details() or '')[:40])


def _cases(stub_real, stub_syn, syn):
  spec = O.study_spec({'algorithm': 'RANDOM_SEARCH', 'space': 'int10'})
  m = study_pb2.Measurement(metrics=[study_pb2.Measurement.Metric(metric_id='m', value=1.0)])
  name = 'owners/o/studies/s'
  out = []
  out.append(('create', _observe(stub_real.CreateStudy, vs.CreateStudyRequest(parent='owners/o', study=study_pb2.Study(display_name='s', study_spec=spec)))))
  out.append(('get-missing-study', _observe(stub_real.GetStudy, vs.GetStudyRequest(name='owners/o/studies/nope'))))
  out.append(('create-empty-name', _observe(stub_real.CreateStudy, vs.CreateStudyRequest(parent='owners/o', study=study_pb2.Study(study_spec=spec)))))
  out.append(('suggest-missing-study', _observe(stub_real.SuggestTrials, vs.SuggestTrialsRequest(parent='owners/o/studies/nope', suggestion_count=1, client_id='w'))))
  out.append(('suggest', _observe(stub_real.SuggestTrials, vs.SuggestTrialsRequest(parent=name, suggestion_count=1, client_id='w'))[:2]))
  out.append(('complete', _observe(stub_real.CompleteTrial, vs.CompleteTrialRequest(name=name + '/trials/1', final_measurement=m))))
  out.append(('complete-twice', _observe(stub_real.CompleteTrial, vs.CompleteTrialRequest(name=name + '/trials/1', trial_infeasible=True, infeasible_reason='x'))))
  out.append(('state-after-rejected-call', study_pb2.Trial.State.Name(stub_real.GetTrial(vs.GetTrialRequest(name=name + '/trials/1')).state)))
  req = vs.UpdateMetadataRequest(name=name)
  u = req.delta.add()
  u.metadatum.key = 'k'
  u.metadatum.value = 'v'
  u.trial_id = '77'
  out.append(('metadata-missing-trial', _observe(stub_real.UpdateMetadata, req)))
  for mode in ('return', 'raise', 'setcode-return', 'setcode-raise', 'abort', 'none', 'abort-4k-details',
               'abort-24k-details'):
    r = _observe(stub_syn.CreateStudy, vs.CreateStudyRequest(parent='owners/o', study=study_pb2.Study(display_name=mode)))
    if mode in ('none', 'abort-24k-details'):
      r = r[:2]  # the wording of transport-generated failures is not modelled
    out.append(('synthetic-' + mode, r, syn.effects))
  return out


def _real():
  servers = []
  stubs = []
  syn = Synthetic()
  for servicer in (vizier_service.VizierServicer(database_url=None), syn):
    port = portpicker.pick_unused_port()
    server = grpc.server(futures.ThreadPoolExecutor(max_workers=2))
    vs_grpc.add_VizierServiceServicer_to_server(servicer, server)
    server.add_insecure_port(f'localhost:{port}')
    server.start()
    channel = grpc.insecure_channel(f'localhost:{port}')
    grpc.channel_ready_future(channel).result(timeout=20)
    servers.append((server, channel))
    stubs.append(vs_grpc.VizierServiceStub(channel))
  try:
    return _cases(stubs[0], stubs[1], syn)
  finally:
    for server, channel in servers:
      channel.close()
      server.stop(0)


def _sim():
  net = simnet.Net()
  syn = Synthetic()
  stubs = []
  for i, servicer in enumerate((vizier_service.VizierServicer(database_url=None), syn)):
    server = simnet.SimServer(net)
    vs_grpc.add_VizierServiceServicer_to_server(servicer, server)
    server.add_insecure_port(f'sim:{i}')
    server.start()
    stubs.append(vs_grpc.VizierServiceStub(simnet.SimChannel(net, f'sim:{i}')))
  return _cases(stubs[0], stubs[1], syn)


class _Holder(vs_grpc.VizierServiceServicer):
  """'hold' keeps its handler busy until told to go on; anything else returns at once."""

  def __init__(self, hold):
    self._hold = hold
    self.order = []

  def CreateStudy(self, request, context):  # pylint: disable=invalid-name
    self.order.append('enter:' + request.study.display_name)
    if request.study.display_name == 'hold':
      self._hold()
    self.order.append('exit:' + request.study.display_name)
    return study_pb2.Study(name=request.study.display_name)


def _req(mode):
  return vs.CreateStudyRequest(parent='owners/o', study=study_pb2.Study(display_name=mode))


def _concurrency_real(limit):
  """A second RPC arrives while the only worker thread is busy: refused (limit) or queued (no limit)."""
  import threading  # pylint: disable=g-import-not-at-top
  entered, go = threading.Event(), threading.Event()

  def hold():
    entered.set()
    go.wait(10)

  h = _Holder(hold)
  port = portpicker.pick_unused_port()
  kw = {} if limit is None else {'maximum_concurrent_rpcs': limit}
  server = grpc.server(futures.ThreadPoolExecutor(max_workers=1), **kw)
  vs_grpc.add_VizierServiceServicer_to_server(h, server)
  server.add_insecure_port(f'localhost:{port}')
  server.start()
  channel = grpc.insecure_channel(f'localhost:{port}')
  grpc.channel_ready_future(channel).result(timeout=20)
  stub = vs_grpc.VizierServiceStub(channel)
  out = {}
  t1 = threading.Thread(target=lambda: out.__setitem__('first', _observe(stub.CreateStudy, _req('hold'))[:2]))
  t1.start()
  entered.wait(10)
  t2 = threading.Thread(target=lambda: out.__setitem__('second', _observe(stub.CreateStudy, _req('quick'))[:2]))
  t2.start()
  t2.join(1.5)  # refused at once, or still waiting for the worker
  second_waited = t2.is_alive()
  go.set()
  t1.join(10)
  t2.join(10)
  channel.close()
  server.stop(0)
  return (out.get('first'), out.get('second'), second_waited, tuple(h.order))


def _concurrency_sim(limit):
  from simkit import conc  # pylint: disable=g-import-not-at-top
  net = simnet.Net()

  def hold():
    s = conc._ACTIVE[0]  # pylint: disable=protected-access
    for _ in range(3):
      s.yield_('held')

  h = _Holder(hold)
  import types as _t  # pylint: disable=g-import-not-at-top
  server = simnet.SimServer(net, max_workers=1, maximum_concurrent_rpcs=limit)
  vs_grpc.add_VizierServiceServicer_to_server(h, server)
  server.add_insecure_port('sim:c')
  server.start()
  stub = vs_grpc.VizierServiceStub(simnet.SimChannel(net, 'sim:c'))
  out = {}
  # explicit schedule: first client until its handler holds, then the second client, then whoever can run
  s = conc.Sched(explicit=['T0', 'T0', 'T1', 'T1', 'T1', 'T1'])
  s.spawn('T0', lambda: out.__setitem__('first', _observe(stub.CreateStudy, _req('hold'))[:2]))
  s.spawn('T1', lambda: out.__setitem__('second', _observe(stub.CreateStudy, _req('quick'))[:2]))
  status = s.run()
  second_waited = any(why.startswith('blocked:') for n, why in s.trace if n == 'T1')
  del _t, status
  return (out.get('first'), out.get('second'), second_waited, tuple(h.order))


_RETRY_OPTIONS = (('grpc.enable_retries', 1), ('grpc.service_config', '{"methodConfig": [{"name": [{}], "retryPolicy": {'
                  '"maxAttempts": 3, "initialBackoff": "0.05s", "maxBackoff": "0.2s", "backoffMultiplier": 2, '
                  '"retryableStatusCodes": ["UNAVAILABLE", "UNKNOWN"]}}]}'))


class _FailsFirst(vs_grpc.VizierServiceServicer):
  """Raises on its first `k` invocations, then answers."""

  def __init__(self, k):
    self.k = k
    self.calls = 0

  def CreateStudy(self, request, context):  # pylint: disable=invalid-name
    self.calls += 1
    if self.calls <= self.k:
      raise ValueError('transient')
    return study_pb2.Study(name='ok')


def _retries_real(k):
  h = _FailsFirst(k)
  port = portpicker.pick_unused_port()
  server = grpc.server(futures.ThreadPoolExecutor(max_workers=2))
  vs_grpc.add_VizierServiceServicer_to_server(h, server)
  server.add_insecure_port(f'localhost:{port}')
  server.start()
  channel = grpc.insecure_channel(f'localhost:{port}', options=_RETRY_OPTIONS)
  grpc.channel_ready_future(channel).result(timeout=20)
  out = _observe(vs_grpc.VizierServiceStub(channel).CreateStudy, _req('x'))[:2]
  channel.close()
  server.stop(0)
  return (out, h.calls)


def _retries_sim(k):
  net = simnet.Net()
  h = _FailsFirst(k)
  server = simnet.SimServer(net)
  vs_grpc.add_VizierServiceServicer_to_server(h, server)
  server.add_insecure_port('sim:r')
  server.start()
  stub = vs_grpc.VizierServiceStub(simnet.SimChannel(net, 'sim:r', options=_RETRY_OPTIONS))
  return (_observe(stub.CreateStudy, _req('x'))[:2], h.calls)


def run():
  """Returns a summary dict; raises SystemExit(2) on mismatch."""
  real = _real()
  sim = _sim()
  for limit in (None, 1):
    real.append(('concurrency-limit-%s' % limit, _concurrency_real(limit)))
    sim.append(('concurrency-limit-%s' % limit, _concurrency_sim(limit)))
  for k in (0, 1, 2, 5):
    real.append(('channel-retries-fail-first-%d' % k, _retries_real(k)))
    sim.append(('channel-retries-fail-first-%d' % k, _retries_sim(k)))
  mismatches = [(a, b) for a, b in zip(real, sim) if a != b]
  if mismatches or len(real) != len(sim):
    print('HARNESS-ERROR: simnet calibration mismatch against real loopback gRPC:')
    for a, b in mismatches:
      print('  real:', a)
      print('  sim :', b)
    raise SystemExit(2)
  return {'cases': len(real), 'mismatches': 0, 'observed': [repr(c) for c in real]}


if __name__ == '__main__':
  from simkit import boot
  boot.boot()
  print(run())
