"""Workload grammar, world construction, op execution and normalisation.

A *plan* is pure JSON data: config + list of symbolic ops.  Symbolic ops
address entities by preference and index ("the 2nd ACTIVE trial of study
o0/s1", "a missing trial"), so that removing an op during minimisation leaves
the rest meaningful.  `resolve` turns a symbolic op into a concrete one against
a *view* of current state; `execute` runs a concrete op on a real servicer.
No PRNG is used here: everything is a function of the plan and the code.
"""
import collections
import os
import shutil
import tempfile

import grpc

from simkit import boot

boot.boot()

# pylint: disable=g-import-not-at-top,g-bad-import-order
from google.longrunning import operations_pb2
from google.protobuf import wrappers_pb2
from vizier._src.service import custom_errors
from vizier._src.service import pythia_service
from vizier._src.service import study_pb2
from vizier._src.service import vizier_service
from vizier._src.service import vizier_service_pb2 as vs
from vizier.service import pyvizier as vz

S = study_pb2.Study.State
T = study_pb2.Trial.State
TS = {T.REQUESTED: 'REQUESTED', T.ACTIVE: 'ACTIVE', T.STOPPING: 'STOPPING',
      T.SUCCEEDED: 'SUCCEEDED', T.INFEASIBLE: 'INFEASIBLE', T.STATE_UNSPECIFIED: 'UNSPEC'}
SS = {S.ACTIVE: 'ACTIVE', S.INACTIVE: 'INACTIVE', S.COMPLETED: 'COMPLETED',
      S.STATE_UNSPECIFIED: 'UNSPEC'}
SS_INV = {v: k for k, v in SS.items()}
MUTABLE_STUDY = ('ACTIVE', 'UNSPEC')

RPC_KINDS = [
    'CreateStudy', 'GetStudy', 'ListStudies', 'DeleteStudy', 'SetStudyState',
    'CreateTrial', 'SuggestTrials', 'GetTrial', 'ListTrials',
    'AddTrialMeasurement', 'CompleteTrial', 'StopTrial', 'DeleteTrial',
    'CheckES', 'UpdateMetadata', 'ListOptimalTrials', 'GetOperation',
]

NS_BENIGN = ['', ':a', ':a:b']
KEYS = ['k1', 'k2', '']
# prefix-related and underscore-containing client ids on purpose (filters, LIKE, name parsing)
# Client ids: one is a prefix of another, two are equal under SQL LIKE ('_' wildcard), and they hold
# characters that URL-style escaping treats specially (space, '+', '%').
WORKERS = ['w 1', 'w 10', 'a_b', 'a+b', 'w%201', 'w']


# ---------------------------------------------------------------- study specs

def param_values(space, x):
  x = int(x)
  if space == 'int10':
    return {'x': float(x % 10)}
  if space == 'mixed':
    return {'a': (x % 11) / 10.0, 'i': float(-2 + x % 6), 'c': 'xyz'[x % 3],
            'd': [0.1, 0.5, 2.0][(x // 3) % 3]}
  if space == 'f2':
    return {'a': (x % 11) / 10.0, 'b': ((x * 7) % 11) / 10.0}
  raise ValueError(space)


def study_config(cfg):
  sc = vz.StudyConfig(algorithm=cfg.get('algorithm', 'GRID_SEARCH'))
  root = sc.search_space.root
  space = cfg.get('space', 'int10')
  if space == 'int10':
    root.add_int_param('x', 0, 9)
  elif space == 'mixed':
    root.add_float_param('a', 0.0, 1.0)
    root.add_int_param('i', -2, 3)
    root.add_categorical_param('c', ['x', 'y', 'z'])
    root.add_discrete_param('d', [0.1, 0.5, 2.0])
  elif space == 'f2':
    root.add_float_param('a', 0.0, 1.0)
    root.add_float_param('b', 0.0, 1.0)
  else:
    raise ValueError(space)
  sc.metric_information.append(
      vz.MetricInformation('m', goal=vz.ObjectiveMetricGoal.MAXIMIZE))
  if cfg.get('metrics', 1) == 2:
    sc.metric_information.append(
        vz.MetricInformation('n', goal=vz.ObjectiveMetricGoal.MINIMIZE))
  return sc


_SPEC_CACHE = {}


def study_spec(cfg):
  key = (cfg.get('algorithm', 'GRID_SEARCH'), cfg.get('space', 'int10'),
         cfg.get('metrics', 1))
  if key not in _SPEC_CACHE:
    _SPEC_CACHE[key] = study_config(cfg).to_proto()
  out = study_pb2.StudySpec()
  out.CopyFrom(_SPEC_CACHE[key])
  return out


def _perm(c, vals):
  """Metrics reported in another order than the study declares them (clients report dicts)."""
  return dict(reversed(list(vals.items()))) if c.get('perm') else vals


def meas(vals, step=0):
  return study_pb2.Measurement(
      step_count=step,
      metrics=[study_pb2.Measurement.Metric(metric_id=k, value=float(v))
               for k, v in vals.items()])


# -------------------------------------------------------------- normalisation

def fam(e):
  """Error family that holds across deployments (DESIGN §2.3)."""
  if isinstance(e, grpc.RpcError):
    c = e.code()
    return {grpc.StatusCode.NOT_FOUND: 'NOT_FOUND',
            grpc.StatusCode.FAILED_PRECONDITION: 'FAILED_PRECONDITION',
            grpc.StatusCode.ALREADY_EXISTS: 'ALREADY_EXISTS',
            grpc.StatusCode.UNKNOWN: 'INVALID'}.get(c, 'STATUS:' + str(c).split('.')[-1])
  if isinstance(e, custom_errors.NotFoundError):
    return 'NOT_FOUND'
  if isinstance(e, (custom_errors.ImmutableStudyError, custom_errors.ImmutableTrialError)):
    return 'FAILED_PRECONDITION'
  if isinstance(e, custom_errors.AlreadyExistsError):
    return 'ALREADY_EXISTS'
  if isinstance(e, (KeyError, LookupError)):
    return 'NOT_FOUND'
  if isinstance(e, ValueError):
    return 'INVALID'
  return 'CRASH:' + type(e).__name__


def nkv(kv):
  if kv.HasField('proto'):
    return (kv.ns, kv.key, 'P', kv.proto.type_url, bytes(kv.proto.value).hex())
  return (kv.ns, kv.key, 'S', kv.value)


def nmeas(m):
  return (int(m.step_count), tuple(sorted((x.metric_id, x.value) for x in m.metrics)))


def ntrial(t):
  """Normalised trial: everything but timestamps."""
  params = []
  for p in t.parameters:
    which = p.value.WhichOneof('kind')
    params.append((p.parameter_id, getattr(p.value, which) if which else None))
  return {
      'id': int(t.id) if t.id else 0,
      'name': t.name,
      'state': TS.get(t.state, str(t.state)),
      'params': tuple(sorted(params, key=lambda kv: kv[0])),
      'meas': tuple(nmeas(m) for m in t.measurements),
      'final': nmeas(t.final_measurement) if t.HasField('final_measurement') else None,
      'client': t.client_id,
      'reason': t.infeasible_reason,
      'md': tuple(sorted(nkv(kv) for kv in t.metadata)),
  }


def nstudy(s):
  return {
      'name': s.name,
      'display': s.display_name,
      'state': SS.get(s.state, str(s.state)),
      'md': tuple(sorted(nkv(kv) for kv in s.study_spec.metadata)),
      'algorithm': s.study_spec.algorithm,
  }


def nop(op):
  out = {'name': op.name, 'done': bool(op.done), 'error': op.HasField('error') or None}
  if op.HasField('error'):
    out['error'] = op.error.message[:200]
  trials = []
  if op.HasField('response'):
    trials = [ntrial(t) for t in vs.SuggestTrialsResponse.FromString(op.response.value).trials]
  out['trials'] = trials
  return out


def nresp(kind, r):
  if isinstance(r, study_pb2.Trial):
    return ('trial', ntrial(r))
  if isinstance(r, study_pb2.Study):
    return ('study', nstudy(r))
  if isinstance(r, operations_pb2.Operation):
    return ('op', nop(r))
  name = r.DESCRIPTOR.name
  if name == 'ListTrialsResponse':
    return ('trials', sorted((ntrial(t) for t in r.trials), key=lambda t: t['id']))
  if name == 'ListOptimalTrialsResponse':
    return ('optimal', sorted(int(t.id) for t in r.optimal_trials))
  if name == 'ListStudiesResponse':
    return ('studies', sorted(s.name for s in r.studies))
  if name == 'UpdateMetadataResponse':
    return ('md', 'error' if r.error_details else 'ok')
  if name == 'CheckTrialEarlyStoppingStateResponse':
    return ('es', bool(r.should_stop))
  if name == 'Empty':
    return ('empty',)
  return ('other', name)


def call(f, req):
  try:
    return ('ok', f(req))
  except BaseException as e:  # pylint: disable=broad-except
    if isinstance(e, (KeyboardInterrupt, SystemExit)):
      raise
    return ('err', fam(e), e)


# --------------------------------------------------------------------- worlds

class CountingPythia:
  """Delegating proxy around the servicer's Pythia service: counts calls."""

  def __init__(self, inner, calls):
    self._inner = inner
    self.calls = calls

  def Suggest(self, request, context=None):  # pylint: disable=invalid-name
    self.calls['Suggest'] = self.calls.get('Suggest', 0) + 1
    return self._inner.Suggest(request)

  def EarlyStop(self, request, context=None):  # pylint: disable=invalid-name
    self.calls['EarlyStop'] = self.calls.get('EarlyStop', 0) + 1
    return self._inner.EarlyStop(request)

  def Ping(self, request, context=None):  # pylint: disable=invalid-name
    return self._inner.Ping(request)


class World:
  """A real VizierServicer on one backend, with an optional policy factory."""

  def __init__(self, cfg, backend='ram', policy_factory=None, dbdir=None,
               recycle_s=None):
    self.cfg = cfg
    set_ids(cfg)
    self.backend = backend
    self.policy_factory = policy_factory
    self.recycle_s = cfg.get('recycle_s', 60.0) if recycle_s is None else recycle_s
    self._own_dir = None
    if backend == 'sqlfile':
      if dbdir is None:
        base = '/dev/shm' if os.path.isdir('/dev/shm') else None
        dbdir = tempfile.mkdtemp(prefix='verif-db-', dir=base)
        self._own_dir = dbdir
      self.dbdir = dbdir
      self.dbpath = os.path.join(dbdir, 'v.db')
    self.sv = None
    self.op_names = []  # every suggestion op name ever returned
    self.calls = {}  # Pythia invocations, by RPC
    self.open()

  @property
  def url(self):
    return {'ram': None, 'sqlmem': 'sqlite:///:memory:'}.get(
        self.backend, f'sqlite:///{getattr(self, "dbpath", "")}')

  def open(self):
    import datetime
    sv = vizier_service.VizierServicer(
        database_url=self.url,
        early_stop_recycle_period=datetime.timedelta(seconds=self.recycle_s))
    if self.policy_factory is not None:
      sv.default_pythia_service = pythia_service.PythiaServicer(
          sv, policy_factory=self.policy_factory)
    sv.default_pythia_service = CountingPythia(sv.default_pythia_service, self.calls)
    self.sv = sv
    return sv

  def close(self):
    sv = self.sv
    if sv is not None and self.backend != 'ram':
      close_datastore(sv.datastore)
    self.sv = None

  def reopen(self):
    """Clean restart: brand-new servicer on the same storage (file only)."""
    if self.backend != 'sqlfile':
      return False
    self.close()
    self.open()
    return True

  def destroy(self):
    self.close()
    if self._own_dir:
      shutil.rmtree(self._own_dir, ignore_errors=True)


def close_datastore(ds):
  """Closes whatever SQLAlchemy connections / engines the datastore holds."""
  for val in list(vars(ds).values()):
    for meth in ('close', 'dispose'):
      if val.__class__.__module__.startswith('sqlalchemy') and hasattr(val, meth):
        try:
          getattr(val, meth)()
        except Exception:  # pylint: disable=broad-except
          pass


# Owner / study ids by index. On purpose some differ only by case or hold an SQL
# LIKE wildcard where another holds a character ('s_' ~ 's0', 'S0' ~ 's0', 'o_' ~ 'o0'),
# one is another plus trailing whitespace ('s0 ' - display names are arbitrary), and some are
# prefixes of others: a store or parser that treats names loosely mixes them up.
OWNER_IDS = ('o0', 'o_', 'o2', 'O0')
STUDY_IDS = ('s0', 's0 ', 's_', 'S0', 's01', 's%')
ID_ROT = [0]


def set_ids(cfg):
  """Per plan, another id of the cycle is the main study's (cfg['id_rot']); its neighbours are the siblings."""
  ID_ROT[0] = int((cfg or {}).get('id_rot', 0))


def oid(o):
  return OWNER_IDS[int(o) % len(OWNER_IDS)]


def sid(d):
  return STUDY_IDS[(int(d) + ID_ROT[0]) % len(STUDY_IDS)]


def study_name(o, d):
  return f'owners/{oid(o)}/studies/{sid(d)}'


# ------------------------------------------------------------------ the view

class View:
  """Read-only picture of a world used to resolve symbolic selectors."""

  def __init__(self, sv, owners=(0, 1)):
    self.studies = {}
    for o in owners:
      r = call(sv.ListStudies, vs.ListStudiesRequest(parent=f'owners/{oid(o)}'))
      if r[0] != 'ok':
        continue
      for st in r[1].studies:
        tr = call(sv.ListTrials, vs.ListTrialsRequest(parent=st.name))
        trials = {}
        if tr[0] == 'ok':
          trials = {int(t.id): TS.get(t.state) for t in tr[1].trials}
        self.studies[st.name] = {'state': SS.get(st.state), 'trials': trials}


_PREF_STATES = {
    'active': ('ACTIVE',), 'mutable': ('ACTIVE', 'STOPPING'), 'stopping': ('STOPPING',),
    'completed': ('SUCCEEDED', 'INFEASIBLE'), 'requested': ('REQUESTED',),
}


def resolve_study(sel, view):
  """sel: {'o':int,'d':int} direct, or {'i':int} = i-th existing study."""
  if 'o' in sel:
    return study_name(sel['o'], sel['d'])
  names = sorted(view.studies)
  if sel.get('missing') or not names:
    return f'owners/{oid(sel.get("i", 0) % 2)}/studies/missing'
  return names[sel['i'] % len(names)]


def resolve_trial(sel, sname, view):
  st = view.studies.get(sname)
  trials = st['trials'] if st else {}
  pref = sel.get('pref', 'any')
  if pref == 'id':
    return int(sel['i'])
  if pref == 'missing' or not trials:
    return 1000 + sel.get('i', 0) % 7
  ids = sorted(trials)
  if pref in _PREF_STATES:
    cand = [i for i in ids if trials[i] in _PREF_STATES[pref]]
    if cand:
      return cand[sel.get('i', 0) % len(cand)]
  if pref == 'max':
    return ids[-1]
  return ids[sel.get('i', 0) % len(ids)]


def resolve(op, view):
  """Symbolic op -> concrete op (dict with explicit names / ids)."""
  kind, a = op[0], dict(op[1])
  c = {'kind': kind}
  if kind in ('CreateStudy',):
    c.update(owner=a['o'], display=a.get('d'), state=a.get('state', 'ACTIVE'),
             empty=bool(a.get('empty')))
    return c
  if kind == 'ListStudies':
    c.update(owner=a['o'])
    return c
  if kind in ('Advance', 'ClockFault', 'Reopen', 'PolicyFault'):
    c.update(a)
    return c
  if kind == 'GetOperation':
    c.update(a)
    return c
  c['study'] = resolve_study(a['study'], view)
  if kind in ('GetTrial', 'AddTrialMeasurement', 'CompleteTrial', 'StopTrial',
              'DeleteTrial', 'CheckES'):
    c['trial'] = resolve_trial(a.get('trial', {}), c['study'], view)
  if kind == 'UpdateMetadata':
    items = []
    for it in a['items']:
      it = dict(it)
      if it.get('trial') is not None:
        it['trial'] = resolve_trial(it['trial'], c['study'], view)
      items.append(it)
    c['items'] = items
  for k, v in a.items():
    if k not in ('study', 'trial', 'items'):
      c[k] = v
  return c


# ------------------------------------------------------------------ requests

def md_value(v):
  """('S', str) or ('P', int) -> value for _assign."""
  return v


def build_md_request(sname, items, ns_table=None):
  ns_table = ns_table or NS_BENIGN
  req = vs.UpdateMetadataRequest(name=sname)
  for it in items:
    u = req.delta.add()
    ns = it['ns']
    u.metadatum.ns = ns_table[ns % len(ns_table)] if isinstance(ns, int) else ns
    k = it['key']
    u.metadatum.key = KEYS[k % len(KEYS)] if isinstance(k, int) else k
    val = it['value']
    if isinstance(val, list) and val and val[0] == 'P':
      u.metadatum.proto.Pack(wrappers_pb2.Int64Value(value=int(val[1])))
    else:
      u.metadatum.value = str(val[1] if isinstance(val, list) else val)
    if it.get('trial') is not None:
      u.trial_id = str(it['trial'])
  return req


def build_request(c, cfg):
  """Concrete op -> (servicer method name, request proto)."""
  kind = c['kind']
  if kind == 'CreateStudy':
    st = study_pb2.Study(study_spec=study_spec(cfg), state=SS_INV[c['state']])
    if not c.get('empty'):
      st.display_name = sid(c['display'])
    return 'CreateStudy', vs.CreateStudyRequest(parent=f'owners/{oid(c["owner"])}', study=st)
  if kind == 'GetStudy':
    return 'GetStudy', vs.GetStudyRequest(name=c['study'])
  if kind == 'ListStudies':
    return 'ListStudies', vs.ListStudiesRequest(parent=f'owners/{oid(c["owner"])}')
  if kind == 'DeleteStudy':
    return 'DeleteStudy', vs.DeleteStudyRequest(name=c['study'])
  if kind == 'SetStudyState':
    return 'SetStudyState', vs.SetStudyStateRequest(parent=c['study'], state=SS_INV[c['state']])
  if kind == 'CreateTrial':
    tr = study_pb2.Trial(client_id='zzz')
    for pid, v in sorted(param_values(cfg.get('space', 'int10'), c['x']).items()):
      p = tr.parameters.add(parameter_id=pid)
      if isinstance(v, str):
        p.value.string_value = v
      else:
        p.value.number_value = v
    tk = c.get('tkind', 'plain')
    if tk == 'succeeded':
      tr.state = T.SUCCEEDED
      tr.final_measurement.CopyFrom(meas(_perm(c, {'m': c.get('v', 1), 'n': c.get('w', 1)})))
    elif tk == 'infeasible':
      tr.state = T.INFEASIBLE
      tr.infeasible_reason = 'r'
    elif tk == 'active':
      tr.state = T.ACTIVE
    elif tk == 'rich':
      # a user-added trial that already carries intermediate measurements and metadata
      tr.measurements.append(meas({'m': c.get('v', 1), 'n': c.get('w', 1)}, step=1))
      tr.measurements.append(meas({'m': c.get('w', 1), 'n': c.get('v', 1)}, step=2))
      kv = tr.metadata.add(key='k1', ns=':a')
      kv.value = str(c.get('v', 1))
    return 'CreateTrial', vs.CreateTrialRequest(parent=c['study'], trial=tr)
  if kind == 'SuggestTrials':
    return 'SuggestTrials', vs.SuggestTrialsRequest(
        parent=c['study'], suggestion_count=c['n'], client_id=WORKERS[c['worker'] % len(WORKERS)])
  tname = f'{c.get("study")}/trials/{c.get("trial")}'
  if kind == 'GetTrial':
    return 'GetTrial', vs.GetTrialRequest(name=tname)
  if kind == 'ListTrials':
    return 'ListTrials', vs.ListTrialsRequest(parent=c['study'])
  if kind == 'AddTrialMeasurement':
    return 'AddTrialMeasurement', vs.AddTrialMeasurementRequest(
        trial_name=tname, measurement=meas(_perm(c, {'m': c.get('v', 0), 'n': c.get('w', 0)}), step=c.get('step', 0)))
  if kind == 'CompleteTrial':
    req = vs.CompleteTrialRequest(name=tname)
    ck = c.get('ckind', 'final')
    if 'final' in ck:
      vals = {'m': c.get('v', 0), 'n': c.get('w', 0)}
      if ck.startswith('partial'):
        vals = {'m': c.get('v', 0)}
      req.final_measurement.CopyFrom(meas(_perm(c, vals)))
    if 'infeasible' in ck:
      req.trial_infeasible = True
      req.infeasible_reason = c.get('reason', 'bad')  # '' = declared infeasible without giving a reason
    return 'CompleteTrial', req
  if kind == 'StopTrial':
    return 'StopTrial', vs.StopTrialRequest(name=tname)
  if kind == 'DeleteTrial':
    return 'DeleteTrial', vs.DeleteTrialRequest(name=tname)
  if kind == 'CheckES':
    return 'CheckTrialEarlyStoppingState', vs.CheckTrialEarlyStoppingStateRequest(trial_name=tname)
  if kind == 'UpdateMetadata':
    return 'UpdateMetadata', build_md_request(c['study'], c['items'])
  if kind == 'ListOptimalTrials':
    return 'ListOptimalTrials', vs.ListOptimalTrialsRequest(parent=c['study'])
  if kind == 'GetOperation':
    return 'GetOperation', operations_pb2.GetOperationRequest(name=c['name'])
  raise ValueError(kind)


def execute(sv, c, cfg):
  """Runs a concrete RPC op on a servicer (or stub); returns raw outcome."""
  method, req = build_request(c, cfg)
  return call(getattr(sv, method), req)


def outcome_norm(kind, r):
  if r[0] == 'ok':
    return ('ok',) + nresp(kind, r[1])
  return ('err', r[1])


# ------------------------------------------------------------------ snapshots

def snapshot(sv, owners=(0, 1), op_names=(), include_ops=True):
  """Full observable state through the public API."""
  out = {'studies': {}, 'ops': {}, 'owners': {}}
  for o in owners:
    r = call(sv.ListStudies, vs.ListStudiesRequest(parent=f'owners/{oid(o)}'))
    if r[0] != 'ok':
      out['owners'][o] = ('err', r[1])
      continue
    out['owners'][o] = ('ok', sorted(s.name for s in r[1].studies))
    for st in r[1].studies:
      g = call(sv.GetStudy, vs.GetStudyRequest(name=st.name))
      tr = call(sv.ListTrials, vs.ListTrialsRequest(parent=st.name))
      out['studies'][st.name] = {
          'study': nstudy(g[1]) if g[0] == 'ok' else ('err', g[1]),
          'trials': ({int(t.id): ntrial(t) for t in tr[1].trials}
                     if tr[0] == 'ok' else ('err', tr[1])),
      }
  if include_ops:
    for name in op_names:
      r = call(sv.GetOperation, operations_pb2.GetOperationRequest(name=name))
      out['ops'][name] = nop(r[1]) if r[0] == 'ok' else ('err', r[1])
  return out


def freeze(x):
  """Hashable deep copy of snapshot-ish data."""
  if isinstance(x, dict):
    return tuple(sorted((repr(k), freeze(v)) for k, v in x.items()))
  if isinstance(x, (list, tuple)):
    return tuple(freeze(v) for v in x)
  return x


def jsonable(x):
  if isinstance(x, dict):
    return {str(k): jsonable(v) for k, v in x.items()}
  if isinstance(x, (list, tuple)):
    return [jsonable(v) for v in x]
  if isinstance(x, (str, int, float, bool)) or x is None:
    return x
  if isinstance(x, bytes):
    return x.hex()
  return repr(x)


Counter = collections.Counter
