"""Minimal stand-in for equinox (prototype): enough for vizier to import."""
import abc
import dataclasses
import functools
import jax
import jax.tree_util as jtu

_MISSING = dataclasses.MISSING


def field(*, converter=None, static=False, **kwargs):
  metadata = dict(kwargs.pop('metadata', {}) or {})
  if converter is not None:
    metadata['converter'] = converter
  metadata['static'] = static
  return dataclasses.field(metadata=metadata, **kwargs)


def static_field(**kwargs):
  return field(static=True, **kwargs)


class _ModuleMeta(abc.ABCMeta):

  def __new__(mcs, name, bases, ns, **kw):
    cls = super().__new__(mcs, name, bases, ns, **kw)
    has_init = '__init__' in ns
    cls = dataclasses.dataclass(eq=False, repr=True, init=not has_init)(cls)
    flds = dataclasses.fields(cls)
    dyn = tuple(f.name for f in flds if not f.metadata.get('static', False))
    sta = tuple(f.name for f in flds if f.metadata.get('static', False))

    def flatten(obj):
      return (
          tuple(getattr(obj, n, None) for n in dyn),
          tuple(getattr(obj, n, None) for n in sta),
      )

    def unflatten(aux, children):
      obj = object.__new__(cls)
      for n, v in zip(dyn, children):
        object.__setattr__(obj, n, v)
      for n, v in zip(sta, aux):
        object.__setattr__(obj, n, v)
      return obj

    jtu.register_pytree_node(cls, flatten, unflatten)
    return cls

  def __call__(cls, *args, **kwargs):
    self = super().__call__(*args, **kwargs)
    for f in dataclasses.fields(cls):
      conv = f.metadata.get('converter')
      if conv is not None and hasattr(self, f.name):
        object.__setattr__(self, f.name, conv(getattr(self, f.name)))
    return self


class Module(metaclass=_ModuleMeta):
  pass


def is_array(x):
  import numpy as np
  return isinstance(x, (jax.Array, np.ndarray, np.generic))


def filter_jit(fun=None, **kw):
  if fun is None:
    return functools.partial(filter_jit, **kw)
  return fun  # prototype: no jit.


def filter_vmap(fun=None, **kw):
  if fun is None:
    return functools.partial(filter_vmap, **kw)
  return jax.vmap(fun)


def filter_value_and_grad(fun=None, *, has_aux=False):
  if fun is None:
    return functools.partial(filter_value_and_grad, has_aux=has_aux)
  return jax.value_and_grad(fun, has_aux=has_aux)


def tree_pformat(x, **kw):
  return repr(x)
