"""Determinism self-test of the simulator (DESIGN §2.9).

For every check: the same VERIF_SEED values are executed in fresh interpreters
with PYTHONHASHSEED 0 and another value, at worker counts 16 and 3, and the
digests over all per-run event logs must be identical.  Usage:
  ./vcheck selftest [--seeds N] [--runs N] [C01 C04 ...]
"""
import json
import os
import subprocess
import sys
import tempfile
import time

from simkit import boot

ALL = ['C01', 'C02', 'C04', 'C05', 'C06', 'C07', 'C08', 'C10', 'C12', 'C13', 'C14']
RUNS = {'C01': 400, 'C02': 400, 'C04': 120, 'C05': 48, 'C06': 300, 'C07': 200, 'C08': 200, 'C10': 400,
        'C12': 400, 'C13': 160, 'C14': 160}


def _run(prop, seed, hashseed, nproc, runs, outdir):
  env = dict(os.environ)
  env.pop('_VERIF_PINNED', None)
  env.update({'VERIF_SEED': str(seed), 'VERIF_HASHSEED': str(hashseed), 'VERIF_NPROC': str(nproc),
              'VERIF_RUNS': str(runs), 'VERIF_EVIDENCE_DIR': outdir})
  p = subprocess.run([sys.executable, os.path.join(boot.VERIF_ROOT, 'vcheck'), prop, 'quick'],
                     capture_output=True, text=True, env=env, timeout=1800)
  ev = json.load(open(os.path.join(outdir, f'{prop}.json')))
  return p.returncode, ev['coverage']['run_digest'], ev['coverage']['runs']


def main(argv):
  seeds = 2
  runs_override = None
  props = []
  it = iter(argv)
  for a in it:
    if a == '--seeds':
      seeds = int(next(it))
    elif a == '--runs':
      runs_override = int(next(it))
    else:
      props.append(a.upper())
  props = props or ALL
  bad = 0
  t0 = time.time()
  total = 0
  for prop in props:
    runs = runs_override or RUNS[prop]
    for seed in range(101, 101 + seeds):
      with tempfile.TemporaryDirectory(prefix='verif-selftest-') as d1, \
          tempfile.TemporaryDirectory(prefix='verif-selftest-') as d2:
        rc1, dg1, n1 = _run(prop, seed, 0, 16, runs, d1)
        rc2, dg2, n2 = _run(prop, seed, 12345, 3, runs, d2)
      total += n1
      ok = dg1 == dg2 and rc1 == rc2 and n1 == n2
      print(f'selftest {prop} seed={seed} runs={n1}: hashseed 0/16 procs -> {dg1[:16]} rc={rc1}; '
            f'hashseed 12345/3 procs -> {dg2[:16]} rc={rc2}: {"same" if ok else "DIFFERENT"}')
      if not ok:
        bad += 1
  print(f'selftest: {total} runs compared twice in fresh interpreters in {time.time() - t0:.0f}s; {bad} divergences')
  return 0 if bad == 0 else 2
