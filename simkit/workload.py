"""Seeded generators of symbolic op lists (swarm style: per-run kind subsets)."""

from simkit import ops as O

BASE_WEIGHTS = {
    'CreateStudy': 3, 'GetStudy': 1, 'ListStudies': 1, 'DeleteStudy': 1, 'SetStudyState': 2,
    'CreateTrial': 4, 'SuggestTrials': 8, 'GetTrial': 1, 'ListTrials': 1,
    'AddTrialMeasurement': 4, 'CompleteTrial': 7, 'StopTrial': 3, 'DeleteTrial': 2,
    'CheckES': 2, 'UpdateMetadata': 4, 'ListOptimalTrials': 2, 'GetOperation': 1,
    'Advance': 1, 'ClockFault': 1, 'M:es-recycle': 1, 'M:delete-recreate': 1, 'M:pool': 1, 'M:es-delete-recreate': 1, 'M:huge-ties': 1, 'M:auto-final': 1,
}

TRIAL_PREFS = ['active', 'active', 'mutable', 'any', 'any', 'completed', 'requested',
               'stopping', 'missing', 'max']


def study_sel(rng, n_studies=3, n_owners=2, p_direct=0.35):
  if rng.random() < p_direct:
    return {'o': rng.randrange(n_owners), 'd': rng.randrange(n_studies)}
  if rng.random() < 0.07:
    return {'i': rng.randrange(4), 'missing': True}
  return {'i': rng.randrange(6)}


def trial_sel(rng, prefs=None):
  return {'pref': rng.choice(prefs or TRIAL_PREFS), 'i': rng.randrange(12)}


def md_items(rng, allow_missing=True, n_ns=3):
  items = []
  for _ in range(rng.randrange(1, 4)):
    tr = None
    if rng.random() < 0.6:
      prefs = ['any', 'any', 'active', 'completed', 'max']
      if allow_missing:
        prefs.append('missing')
      tr = trial_sel(rng, prefs)
    val = ['S', str(rng.randrange(100))] if rng.random() < 0.8 else ['P', rng.randrange(100)]
    if rng.random() < 0.08:
      val = ['S', '']
    items.append({'trial': tr, 'ns': rng.randrange(n_ns), 'key': rng.randrange(3), 'value': val})
  return items


def _mval(rng, n):
  """A metric value: small integers, sometimes huge ones (ties on 1e17 absorb small differences in sums)."""
  return rng.choice([1e17, 1e17, 1e17, -1e17, 2.5e-9]) if rng.random() < 0.15 else rng.randrange(n)


def gen_op(rng, kind, p):
  """One symbolic op of `kind`; p = profile dict (n_studies, workers, ...)."""
  ss = lambda: study_sel(rng, p.get('n_studies', 3), p.get('n_owners', 2), p.get('p_direct', 0.35))
  if kind == 'CreateStudy':
    a = {'o': rng.randrange(p.get('n_owners', 2)), 'd': rng.randrange(p.get('n_studies', 3)),
         'state': rng.choice(['ACTIVE', 'ACTIVE', 'ACTIVE', 'UNSPEC', 'INACTIVE'])}
    if rng.random() < 0.04:
      a['empty'] = True
    return [kind, a]
  if kind == 'ListStudies':
    return [kind, {'o': rng.randrange(3)}]
  if kind in ('GetStudy', 'DeleteStudy', 'ListTrials', 'ListOptimalTrials'):
    return [kind, {'study': ss()}]
  if kind == 'SetStudyState':
    return [kind, {'study': ss(), 'state': rng.choice(['ACTIVE', 'ACTIVE', 'INACTIVE', 'COMPLETED', 'UNSPEC'])}]
  if kind == 'CreateTrial':
    return [kind, {'study': ss(), 'x': rng.randrange(100),
                   'tkind': rng.choice(['plain', 'plain', 'succeeded', 'infeasible', 'active', 'rich']),
                   'v': _mval(rng, 6), 'w': _mval(rng, 6), 'perm': rng.random() < 0.3}]
  if kind == 'SuggestTrials':
    return [kind, {'study': ss(), 'n': rng.choice([1, 1, 2, 2, 3, 4, 5, 5, 8, 12]),
                   'worker': rng.randrange(p.get('workers', 2))}]
  if kind in ('GetTrial', 'StopTrial', 'DeleteTrial', 'CheckES'):
    return [kind, {'study': ss(), 'trial': trial_sel(rng)}]
  if kind == 'AddTrialMeasurement':
    return [kind, {'study': ss(), 'trial': trial_sel(rng), 'v': rng.randrange(10),
                   'w': rng.randrange(10), 'step': rng.randrange(5), 'perm': rng.random() < 0.3}]
  if kind == 'CompleteTrial':
    return [kind, {'study': ss(), 'trial': trial_sel(rng),
                   'ckind': rng.choice(['final', 'final', 'final', 'auto', 'infeasible',
                                        'infeasible+final', 'partial-final']),
                   'v': _mval(rng, 6), 'w': _mval(rng, 6), 'reason': rng.choice(['bad', 'bad', '']),
                   'perm': rng.random() < 0.3}]
  if kind == 'UpdateMetadata':
    return [kind, {'study': ss(), 'items': md_items(rng, p.get('md_missing', True))}]
  if kind == 'GetOperation':
    return [kind, {'sel': rng.randrange(8), 'missing': rng.random() < 0.2}]
  if kind == 'Advance':
    return [kind, {'dt': rng.choice([0.5, 5.0, 61.0, 61.0, 3600.0])}]
  if kind == 'ClockFault':
    k = rng.choice(['jump_fwd', 'jump_back', 'freeze', 'coarse_on', 'coarse_off'])
    return [kind, {'fault': k, 'arg': rng.choice([1, 3, 30, 120, 7200])}]
  if kind == 'Reopen':
    return [kind, {}]
  raise ValueError(kind)


def swarm_weights(rng, weights=None, always=('CreateStudy', 'SuggestTrials', 'CompleteTrial'),
                  drop_p=0.25):
  w = dict(weights or BASE_WEIGHTS)
  for k in list(w):
    if k not in always and rng.random() < drop_p:
      del w[k]
    elif rng.random() < 0.3:
      w[k] = w[k] * rng.choice([2, 3])
  return w


def gen_ops(rng, n, profile, weights):
  kinds = sorted(weights)
  ws = [weights[k] for k in kinds]
  out = []
  # Always start by creating a study so that the history does something.
  out.append(['CreateStudy', {'o': 0, 'd': 0, 'state': 'ACTIVE'}])
  while len(out) < n:
    kind = rng.choices(kinds, ws)[0]
    if kind.startswith('M:'):
      out.extend(gen_macro(rng, kind, profile))
    else:
      out.append(gen_op(rng, kind, profile))
  return out


def gen_macro(rng, kind, p):
  """Short op sequences that random choice rarely lines up."""
  if kind == 'M:es-recycle':
    ss = {'o': 0, 'd': 0}
    t = {'pref': 'active', 'i': rng.randrange(4)}
    return [['CheckES', {'study': ss, 'trial': t}],
            ['Advance', {'dt': rng.choice([0.05, 0.2, 30.0, 61.0, 61.0, 4000.0])}],
            ['CheckES', {'study': ss, 'trial': t}]]
  if kind == 'M:delete-recreate':
    o, d = rng.randrange(p.get('n_owners', 2)), rng.randrange(p.get('n_studies', 3))
    w = rng.randrange(p.get('workers', 2))
    return [['SuggestTrials', {'study': {'o': o, 'd': d}, 'n': 1, 'worker': w}],
            ['DeleteStudy', {'study': {'o': o, 'd': d}}],
            ['CreateStudy', {'o': o, 'd': d, 'state': 'ACTIVE'}],
            ['SuggestTrials', {'study': {'o': o, 'd': d}, 'n': rng.choice([1, 2]), 'worker': w}]]
  if kind == 'M:es-delete-recreate':
    # an early-stopping decision stored for the newest trial, the trial deleted, its id handed out again,
    # and the question asked about the new trial inside the recycle period
    ss = {'o': 0, 'd': 0}
    w = rng.randrange(p.get('workers', 2))
    return [['SuggestTrials', {'study': ss, 'n': 2, 'worker': w}],
            ['CheckES', {'study': ss, 'trial': {'pref': 'max', 'i': 0}}],
            ['DeleteTrial', {'study': ss, 'trial': {'pref': 'max', 'i': 0}}],
            ['SuggestTrials', {'study': ss, 'n': 2, 'worker': w}],
            ['CheckES', {'study': ss, 'trial': {'pref': 'max', 'i': 0}}]]
  if kind == 'M:auto-final':
    # several intermediate measurements (step counts in any order), then a completion that lets the
    # service pick the final measurement itself
    ss = {'o': 0, 'd': 0}
    t = {'pref': 'max', 'i': 0}
    out = [['SuggestTrials', {'study': ss, 'n': 1, 'worker': rng.randrange(p.get('workers', 2))}]]
    for _ in range(rng.choice([2, 2, 3])):
      out.append(['AddTrialMeasurement', {'study': ss, 'trial': t, 'v': rng.randrange(10), 'w': rng.randrange(10),
                                          'step': rng.randrange(5), 'perm': rng.random() < 0.3}])
    out.append(['CompleteTrial', {'study': ss, 'trial': t, 'ckind': 'auto', 'v': 0, 'w': 0, 'reason': 'bad'}])
    return out
  if kind == 'M:huge-ties':
    # two trials tie on a huge value of one metric and differ a little on the other: the sums of their
    # objectives are equal in floating point although one dominates the other
    ss = {'o': 0, 'd': 0}
    big = rng.choice([1e17, 1e17, -1e17, 3e16])
    lo, hi = rng.sample(range(6), 2)
    return [['SuggestTrials', {'study': ss, 'n': 2, 'worker': rng.randrange(p.get('workers', 2))}],
            ['CompleteTrial', {'study': ss, 'trial': {'pref': 'active', 'i': 0}, 'ckind': 'final', 'v': big, 'w': hi, 'reason': 'bad'}],
            ['CompleteTrial', {'study': ss, 'trial': {'pref': 'active', 'i': 0}, 'ckind': 'final', 'v': big, 'w': lo, 'reason': 'bad'}],
            ['ListOptimalTrials', {'study': ss}]]
  if kind == 'M:pool':
    ss = {'o': 0, 'd': 0}
    return [['CreateTrial', {'study': ss, 'x': rng.randrange(100), 'tkind': 'plain'}],
            ['CreateTrial', {'study': ss, 'x': rng.randrange(100), 'tkind': 'plain'}],
            ['SuggestTrials', {'study': ss, 'n': rng.choice([1, 2, 3]), 'worker': rng.randrange(p.get('workers', 2))}]]
  raise ValueError(kind)


def simplify_ops(plan, field='ops'):
  """Generic per-op simplifications for minimisation (one change each)."""
  ops = plan.get(field, [])
  for i, (kind, a) in enumerate(ops):
    for key, simple in (('n', 1), ('v', 0), ('w', 0), ('step', 0), ('x', 0), ('worker', 0)):
      if key in a and a[key] != simple:
        b = dict(a)
        b[key] = simple
        yield dict(plan, **{field: ops[:i] + [[kind, b]] + ops[i + 1:]})
    if kind == 'UpdateMetadata' and len(a['items']) > 1:
      for j in range(len(a['items'])):
        b = dict(a, items=a['items'][:j] + a['items'][j + 1:])
        yield dict(plan, **{field: ops[:i] + [[kind, b]] + ops[i + 1:]})
    if kind == 'CompleteTrial' and a.get('ckind') != 'final':
      yield dict(plan, **{field: ops[:i] + [[kind, dict(a, ckind='final')]] + ops[i + 1:]})
    if kind == 'CreateTrial' and a.get('tkind') != 'plain':
      yield dict(plan, **{field: ops[:i] + [[kind, dict(a, tkind='plain')]] + ops[i + 1:]})


def op_classes(c):
  """Argument class of a concrete op (for the canonical hash)."""
  k = c['kind']
  extra = ()
  if k == 'CompleteTrial':
    extra = (c.get('ckind'),)
  elif k == 'CreateTrial':
    extra = (c.get('tkind'),)
  elif k == 'SuggestTrials':
    extra = (c.get('n'), c.get('worker'))
  elif k == 'SetStudyState':
    extra = (c.get('state'),)
  elif k == 'UpdateMetadata':
    extra = (len(c.get('items', [])),)
  return (k,) + extra


del O
