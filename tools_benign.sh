#!/bin/bash
# usage: tools_benign.sh <worktree> <checks...>  - every listed quick check must stay quiet on a behaviour-preserving refactor
wt="$1"; shift; evd=$(mktemp -d)
for c in "$@"; do
  res=$(cd /verif && VERIF_REPO="$wt" VERIF_EVIDENCE_DIR=$evd ./vcheck $c quick 2>&1); rc=$?
  echo "benign $(basename $wt) $c rc=$rc $(echo "$res" | grep -E '^(VIOLATION|HARNESS)|clause=' | head -3 | tr '\n' ' ' | cut -c1-400) | $(echo "$res" | tail -1)"
done
rm -rf $evd
