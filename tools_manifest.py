#!/venv/bin/python
"""Regenerates MANIFEST.json from the table below (keeps it valid at all times)."""
import json, os, sys
ROOT = os.path.dirname(os.path.abspath(__file__))
NA = {
 'C03': 'suggestion-in-search-space is a pure function of (space, algorithm, history, seed); no schedule, clock, fault or interaction between parties enters it, so a simulator adds nothing over input generation',
 'C09': 'proto round-trip of configs/trials/measurements is a pure conversion identity over input values; nothing in it depends on a schedule, clock, crash point or fault',
 'C11': 'Pareto optimality of a finite point set is a pure function of the set (the ListOptimalTrials RPC is nevertheless compared with a brute-force model inside the C01 oracle; the library routines are not claimed)',
 'C15': 'encode/decode invertibility and decode-into-space are pure identities over (space, options, array); no concurrency, time, I/O or faults',
 'C16': 'validation and membership of search spaces are pure predicates over definitions and assignments',
 'C17': 'external-type presentation of parameters is a pure function of (space, stored trial)',
 'C18': 'output-warper monotonicity/finiteness is a pure function of a label array',
 'C19': "the vectorised optimiser's result is a pure function of (score function, layout, seed); no concurrency, I/O or time",
 'C20': 'experimenter/wrapper algebra is a pure function of (experimenter stack, point, seed)',
}
CHECKS = json.load(open(os.path.join(ROOT, 'checks', 'registry.json')))
man = {
 'version': 1,
 'setup_cmd': './vcheck setup',
 'hooks': {
   'guard': 'GOOGLE_VIZIER_VERIF',
   'enable': 'no hook is compiled in: every seam the simulator needs already exists (constructor injection, module globals, SQLAlchemy events); checks export GOOGLE_VIZIER_VERIF=1 for forward compatibility only',
   'baseline_off_cmd': 'cd /repo && env -u GOOGLE_VIZIER_VERIF /venv/bin/python -m pytest -ra -q -p no:cacheprovider --timeout=900 --continue-on-collection-errors',
   'source_commits': [],
   'add_only': True,
 },
 'engines': [
   {'name': 'svc', 'path': 'simkit/ops.py simkit/model.py', 'serves_properties': ['C01','C02','C06','C07','C10','C12'], 'kind_free_text': 'sequential deterministic simulation of the real servicer + datastore + Pythia under SimClock/entropy seams with a reference model and history monitors'},
   {'name': 'conc', 'path': 'simkit/conc.py', 'serves_properties': ['C04'], 'kind_free_text': 'baton-passing seeded thread scheduler over real threads; pre-emption at datastore calls and lock operations'},
   {'name': 'crash', 'path': 'simkit/crash.py', 'serves_properties': ['C05'], 'kind_free_text': 'SQLite crash images at every statement/commit boundary via SQLAlchemy engine events'},
   {'name': 'simnet', 'path': 'simkit/simnet.py', 'serves_properties': ['C06','C08'], 'kind_free_text': 'in-process fake gRPC transport with real status semantics; runs unmodified server classes'},
   {'name': 'twin', 'path': 'simkit/twin.py', 'serves_properties': ['C13','C14'], 'kind_free_text': 'twin-run equality under injected restarts / perturbations'},
 ],
 'checks': [],
 'not_applicable': [],
 'notes': 'Technique family: deterministic simulation with fault injection. See DESIGN.md.',
}
claimed = set()
for c in CHECKS:
  claimed.add(c['property_id'])
  man['checks'].append({
    'property_id': c['property_id'],
    'quick_cmd': f"./vcheck {c['property_id']} quick",
    'thorough_cmd': f"./vcheck {c['property_id']} thorough",
    'evidence_file': f"evidence/{c['property_id']}.json",
    'replay_cmd_template': './vcheck replay {path}',
    'engine': c['engine'],
    'level_claimed': {'category': c['level'], 'text': c['text'], 'design_ref': c['design_ref']},
    'level_note': c['note'],
    'technique': c['technique'],
  })
props = [json.loads(l)['id'] for l in open(os.path.join(ROOT, 'properties.jsonl'))]
for p in props:
  if p not in claimed:
    reason = NA.get(p) or 'check not built yet in this round (planned: deterministic simulation, see DESIGN.md section 3)'
    man['not_applicable'].append({'property_id': p, 'reason': reason})
json.dump(man, open(os.path.join(ROOT, 'MANIFEST.json'), 'w'), indent=1)
print('claimed', sorted(claimed))
