#!/bin/bash
# usage: tools_harvest.sh <worktree> <property> <slug> [extra check ids...]
# Confirms an agent's seeded change (demo fails with / passes without), stores it under /verif/seeded/<slug>/,
# and runs the property's quick check against the worktree.
wt="$1"; prop="$2"; slug="$3"; shift 3
out=/verif/seeded/$slug; mkdir -p "$out"
cd "$wt" || exit 2
git diff > "$out/patch.diff"
cp demo.py "$out/demo.py" 2>/dev/null
run_demo() { (cd "$wt" && PYTHONPATH="$wt" JAX_PLATFORMS=cpu timeout 600 /venv/bin/python demo.py > /tmp/demo_out.txt 2>&1; echo $?); }
with=$(run_demo); tail -3 /tmp/demo_out.txt > "$out/demo_with_change.txt"
git apply -R "$out/patch.diff"; without=$(run_demo); tail -2 /tmp/demo_out.txt > "$out/demo_without_change.txt"; git apply "$out/patch.diff"
echo "demo: with change rc=$with, without change rc=$without"
evd=$(mktemp -d)
for c in $prop "$@"; do
  res=$(cd /verif && VERIF_LIST=${HARVEST_LIST:-0} VERIF_REPO="$wt" VERIF_EVIDENCE_DIR=$evd timeout 1500 ./vcheck $c quick 2>&1); rc=$?
  echo "check $c rc=$rc :: $(echo "$res" | grep -E "^  clause=|^SIG NEW" | head -2 | tr '\n' ' ' | cut -c1-400)"
  echo "$res" | tail -1
done
rm -rf $evd
