#!/bin/bash
# usage: tools_sweep.sh "<seeds>" "<checks>" [tier]  -> one summary line per (check, seed)
cd "$(dirname "$0")"
for s in $1; do for c in $2; do
  out=$(VERIF_SEED=$s ./vcheck $c ${3:-quick} 2>&1); rc=$?
  echo "seed=$s $c rc=$rc $(echo "$out" | grep -E "^(VIOLATION|HARNESS|KNOWN)" | head -3 | tr '\n' ' ' | cut -c1-300) $(echo "$out" | tail -1)"
done; done
