#!/bin/bash
# Runs repo test modules that need the generated protos, under the verif bootstrap.
# usage: tools_repotest.sh <pytest args...>   (cwd-independent; VERIF_REPO honoured)
cd "${VERIF_REPO:-/repo}" && PYTHONHASHSEED=0 JAX_PLATFORMS=cpu /venv/bin/python -c "
import sys; sys.path.insert(0,'/verif')
from simkit import boot; boot.boot()
import logging; logging.disable(logging.NOTSET)
import pytest; sys.exit(pytest.main(['-q','-p','no:cacheprovider','-x','--timeout=900']+sys.argv[1:]))
" "$@"
