"""C06 - a failing algorithm is reported and never wedges the study (DESIGN §3 C06)."""
from simkit import clock as simclock
from simkit import deploy
from simkit import model as M
from simkit import ops as O
from simkit import policies as P
from simkit import runner
from simkit import simnet
from simkit import workload as W

from vizier._src.service import vizier_client
from vizier._src.service import vizier_oss_pb2

POLL_CAP = 50


class PollBudgetExceeded(BaseException):
  """Raised by the simulated sleep when a client polls too often."""


def scan_operations(servicer, snap, suggestion=True):
  """All suggestion ops (by guessed names) and ES ops of every study."""
  sugg, es = {}, {}
  from google.longrunning import operations_pb2  # pylint: disable=g-import-not-at-top
  for name, st in snap['studies'].items():
    owner, sid = name.split('/')[1], name.split('/')[3]
    for w in (O.WORKERS if suggestion else []):
      k = 1
      while k < 200:
        oname = f'owners/{owner}/operations/suggestion/{sid}/{w}/{k}'
        r = O.call(servicer.GetOperation, operations_pb2.GetOperationRequest(name=oname))
        if r[0] != 'ok':
          break
        sugg[oname] = r[1]
        k += 1
    if isinstance(st['trials'], dict):
      for tid in st['trials']:
        ename = f'owners/{owner}/operations/earlystopping/{sid}/{tid}'
        try:
          es[(name, tid)] = servicer.datastore.get_early_stopping_operation(ename)
        except KeyError:
          pass
  return sugg, es


class C06(runner.Check):
  prop = 'C06'
  level = 'fault_enumeration'
  engine = 'svc+simnet'
  rule = ('one evaluation = one (fault plan, history): 1-2 algorithm faults (exception of 22 types with short, empty, multi-line, non-ASCII or multi-KiB messages, or '
          'delivery of 0 / N-k / N+k suggestions, or a metadata delta naming a missing trial) injected '
          'at the 1st / k-th / a range of suggest or early-stop invocations, behind the in-process '
          'Pythia, the gRPC server or the split remote-Pythia deployment, inside a history of client '
          'calls by several workers, followed (after faults stop) by follow-up suggests and early-stop '
          'checks by the same and by fresh workers; a failed algorithm call must be reported (errored operation, error '
          'status or raising client), leave nothing unfinished and not wedge later calls; distinct = hash of (deployment, fault kinds x sites '
          'x positions, op kind sequence); non-trivial iff a fault actually fired and >=1 follow-up '
          'suggest by the same worker ran afterwards')
  assumptions = [
      'simnet models gRPC status semantics (calibrated against loopback gRPC in C08 thorough)',
      'a raw exception escaping an in-process servicer call counts as "reported" provided nothing unfinished is left behind',
      'a short delivery may be answered by the short list or by an errored operation (docstring and property differ); both accepted',
  ]
  runs = {'quick': 2400, 'thorough': 30000}
  budget_s = {'quick': 100, 'thorough': 1200}
  chunk = 10
  probes = ['probe.fault-fired', 'probe.followup-same-worker', 'probe.over-delivery-queued',
            'probe.short-delivery', 'probe.early-stop-fault-fired',
            'probe.remote-pythia-error-op', 'probe.early-stop-recycled']

  def gen(self, rng, idx, tier):
    deploy_kind = rng.choice(['local', 'local', 'split', 'grpc', 'split'])
    cfg = {
        'deploy': deploy_kind, 'backend': rng.choice(['ram', 'ram', 'sqlmem']),
        'algorithm': rng.choice(['SEQUENCE', 'SEQUENCE', 'GRID_SEARCH', 'QUASI_RANDOM_SEARCH']),
        'space': rng.choice(['int10', 'mixed']), 'recycle_s': 60.0,
        'via': 'servicer' if deploy_kind == 'local' else rng.choice(['servicer', 'stub']),
        'epoch': simclock.EPOCH + rng.randrange(10**6),
    }
    cfg['id_rot'] = rng.randrange(len(O.STUDY_IDS))  # which adversarial id the main study carries
    cfg['tz_h'] = rng.choice([0, 0, 9, -8, 5.5])  # the host's local time zone (hours east of UTC)
    faults = []
    for _ in range(rng.choice([1, 1, 2])):
      site = rng.choice(['suggest', 'suggest', 'suggest', 'early_stop'])
      at = rng.choice([1, 1, 2, 3, [1, 3], [2, 4], [1, 999]])
      if site == 'suggest':
        kind = rng.choice(
            ['raise:' + rng.choice(P.EXCEPTION_TYPES)] * 3
            + ['deliver:0', 'deliver:-1', 'deliver:-2', 'deliver:+1', 'deliver:+2', 'deliver:+3', 'bad-delta'])
      else:
        kind = rng.choice(['raise:' + rng.choice(P.EXCEPTION_TYPES)] * 3 + ['bad-delta', 'no-decision'])
      fault = {'site': site, 'at': at, 'kind': kind}
      if kind.startswith('raise:') and rng.random() < 0.35:
        mk = rng.choice(['empty', 'multiline', 'nonascii', 'long', 'long-nonascii', 'long-nonascii'])
        fault['msg'] = {'kind': mk, 'n': rng.choice([300, 4090, 4500, 6000]), 'pad': rng.randrange(6)}
      faults.append(fault)
    net_faults = []
    if deploy_kind == 'split' and rng.random() < 0.5:
      # The algorithm call itself fails in transit: request or response of the
      # Vizier -> remote Pythia RPC is lost (UNAVAILABLE at the Vizier server).
      for _ in range(rng.choice([1, 1, 2])):
        net_faults.append({'method': rng.choice(['PythiaService/Suggest', 'PythiaService/Suggest', 'PythiaService/EarlyStop']),
                           'at': rng.choice([1, 1, 2, 3, [1, 2]]), 'kind': rng.choice(['req_lost', 'resp_lost'])})
    workers = rng.choice([1, 2, 3])
    ss = {'o': 0, 'd': 0}
    ops = [['CreateStudy', {'o': 0, 'd': 0, 'state': 'ACTIVE'}]]
    body_kinds = ['SuggestTrials'] * 6 + ['ClientSuggest'] * 2 + ['CompleteTrial'] * 4 + [
        'CheckES', 'CheckES', 'Advance', 'CreateTrial', 'StopTrial', 'DeleteTrial', 'AddTrialMeasurement']
    n = rng.randrange(3, 12 if tier == 'quick' else 25)
    for _ in range(n):
      k = rng.choice(body_kinds)
      if k == 'ClientSuggest':
        ops.append([k, {'study': ss, 'n': rng.choice([1, 2, 3]), 'worker': rng.randrange(workers)}])
      elif k == 'SuggestTrials':
        ops.append([k, {'study': ss, 'n': rng.choice([1, 2, 3, 4]), 'worker': rng.randrange(workers)}])
      elif k == 'Advance':
        ops.append([k, {'dt': rng.choice([5.0, 130.0, 4000.0])}])
      elif k == 'CreateTrial':
        ops.append([k, {'study': ss, 'x': rng.randrange(50), 'tkind': 'plain'}])
      else:
        op = W.gen_op(rng, k, {'n_studies': 1, 'n_owners': 1})
        op[1]['study'] = ss
        if k in ('CompleteTrial', 'CheckES', 'StopTrial', 'AddTrialMeasurement'):
          op[1]['trial'] = {'pref': rng.choice(['active', 'active', 'mutable', 'any']), 'i': rng.randrange(6)}
        ops.append(op)
    ops.append(['FaultsOff', {}])
    for w in list(range(workers)) + [rng.choice([0, 3])]:
      kind = rng.choice(['SuggestTrials', 'SuggestTrials', 'ClientSuggest'])
      ops.append([kind, {'study': ss, 'n': rng.choice([1, 2, 5]), 'worker': w}])
    ops.append(['CheckES', {'study': ss, 'trial': {'pref': 'active', 'i': rng.randrange(4)}}])
    ops.append(['Advance', {'dt': 130.0}])
    ops.append(['CheckES', {'study': ss, 'trial': {'pref': 'active', 'i': rng.randrange(4)}}])
    ops.append(['CompleteTrial', {'study': ss, 'trial': {'pref': 'active', 'i': 0}, 'ckind': 'final', 'v': 1}])
    ops.append(['SuggestTrials', {'study': ss, 'n': 6, 'worker': 0}])
    return {'cfg': cfg, 'faults': faults, 'net_faults': net_faults, 'entropy': rng.randrange(2**31), 'ops': ops}

  def shrink_lists(self, plan):
    return ['ops', 'faults', 'net_faults']

  def simplify(self, plan):
    for i, f in enumerate(plan['faults']):
      if f['at'] != 1:
        g = dict(f, at=1)
        yield dict(plan, faults=plan['faults'][:i] + [g] + plan['faults'][i + 1:])
    if plan['cfg'].get('backend') != 'ram':
      yield dict(plan, cfg=dict(plan['cfg'], backend='ram'))
    if plan['cfg'].get('via') != 'servicer':
      yield dict(plan, cfg=dict(plan['cfg'], via='servicer'))
    yield from W.simplify_ops(plan)

  def run(self, plan):
    res = runner.Result()
    cfg = plan['cfg']
    clk = simclock.SimClock(epoch=cfg.get('epoch', simclock.EPOCH), tz_offset=3600.0 * cfg.get('tz_h', 0))
    ent = simclock.Entropy(plan.get('entropy', 0))
    net = simnet.Net(clk)
    net.method_faults = [dict(f) for f in plan.get('net_faults', [])]
    factory = P.FaultyFactory(P.base_factory(cfg), plan.get('faults', []))
    polls = [0]
    with simclock.installed(clk, ent), simnet.installed(net):
      real_sleep = vizier_client.time.sleep

      def counted_sleep(dt):
        polls[0] += 1
        if polls[0] > POLL_CAP:
          raise PollBudgetExceeded()
        real_sleep(dt)

      vizier_client.time.sleep = counted_sleep
      dep = deploy.Deployment(cfg['deploy'], cfg, net, policy_factory=factory, backend=cfg['backend'])
      try:
        self._drive(plan, res, dep, factory, clk, polls)
      finally:
        dep.destroy()
    res.sim_s += clk.elapsed
    return res

  def _drive(self, plan, res, dep, factory, clk, polls):
    cfg = plan['cfg']
    svc = dep.service if cfg.get('via') == 'stub' else dep.servicer
    sv = dep.servicer
    mon = M.Monitors()
    deployment = cfg['deploy']
    sig_base = {'deploy': deployment}
    fault_workers = set()
    followup_same = False
    classes = []
    fired_before_total = 0
    for step, op in enumerate(plan['ops']):
      kind = op[0]
      if kind == 'Advance':
        clk.advance(op[1]['dt'])
        res.bump('clock.advance')
        continue
      if kind == 'FaultsOff':
        factory.enabled = False
        dep.net.enabled = False
        continue
      c = O.resolve(op if kind != 'ClientSuggest' else ['SuggestTrials', op[1]], O.View(sv))
      c['kind'] = kind
      pre = O.snapshot(sv, include_ops=False)
      _, es_pre = scan_operations(sv, pre, suggestion=False)
      calls0 = dict(factory.calls)
      fired0 = sum(factory.fired.values()) + sum(dep.net.fired.values())
      fired_map0 = dict(factory.fired)
      net_map0 = dict(dep.net.fired)
      polls[0] = 0
      hang = False
      if kind == 'ClientSuggest':
        worker = O.WORKERS[c['worker'] % len(O.WORKERS)]
        client = vizier_client.VizierClient(c['study'], worker, svc)
        try:
          trials = client.get_suggestions(c['n'])
          out = ('ok', 'client-trials', [int(t.id) for t in trials])
        except PollBudgetExceeded:
          hang = True
          out = ('err', 'POLL-FOREVER')
        except Exception as e:  # pylint: disable=broad-except
          out = ('err', O.fam(e) if not isinstance(e, RuntimeError) else 'OPERATION-ERROR')
        if polls[0]:
          res.bump('probe.client-polled')
      else:
        out = O.outcome_norm(kind, O.execute(svc, c, cfg))
      fired_now = sum(factory.fired.values()) + sum(dep.net.fired.values()) - fired0
      reached = {k: factory.calls[k] - calls0[k] for k in calls0}
      res.bump('op.' + kind)
      fault_now = '+'.join(sorted([k for k, v in factory.fired.items() if v > fired_map0.get(k, 0)]
                                  + ['net:' + k for k, v in dep.net.fired.items() if v > net_map0.get(k, 0)])) or 'none'
      # the algorithm call itself failed in this call: it raised, or its request / response was lost in transit
      raised_now = any(k.startswith('raise:') or k.startswith('net:') for k in fault_now.split('+'))
      classes.append((kind, out[0] if out[0] == 'ok' else out[1], bool(fired_now)))
      res.log.append([O.jsonable(c), O.jsonable(out), fired_now, reached])
      if fired_now:
        res.bump('probe.fault-fired', fired_now)
        for k in factory.fired:
          pass
      viol = []
      if hang:
        viol.append(('client-polls-forever', f'{kind} by {c.get("worker")} still polling after {POLL_CAP} polls'))

      snap = O.snapshot(sv, include_ops=False)
      st_pre = pre['studies'].get(c.get('study'))
      study_ok = st_pre is not None and isinstance(st_pre['study'], dict) and st_pre['study']['state'] in O.MUTABLE_STUDY

      # --- suggest-type calls
      if kind in ('SuggestTrials', 'ClientSuggest') and study_ok and isinstance(st_pre['trials'], dict):
        w = O.WORKERS[c['worker'] % len(O.WORKERS)]
        n = c['n']
        own = [i for i, t in st_pre['trials'].items() if t['state'] == 'ACTIVE' and t['client'] == w]
        pool = [i for i, t in st_pre['trials'].items() if t['state'] == 'REQUESTED']
        need = n - len(own) - len(pool)
        if w in fault_workers and not fired_now:
          followup_same = True
          res.bump('probe.followup-same-worker')
        if need > 0 and reached['suggest'] < 1 and not hang and not fired_now:  # (a request lost in transit cannot reach it)
          viol.append(('algorithm-not-reached',
                       f'{kind} by {w} needs {need} new suggestions but the algorithm was not invoked; outcome {out[:2]}'))
        if fired_now:
          fault_workers.add(w)
          flt = [k for k in factory.fired]
          del flt
        if kind == 'SuggestTrials' and out[0] == 'ok':
          opn = out[2]
          if not opn['done']:
            viol.append(('returned-unfinished-operation', f'{kind} by {w} returned operation {opn["name"]} not done'))
          elif not fired_now and not opn['error'] and len(opn['trials']) != n:
            viol.append(('no-result-without-fault', f'{kind} by {w}: {len(opn["trials"])} trials for n={n}, no fault fired'))
          elif not fired_now and opn['error']:
            viol.append(('error-without-fault', f'{kind} by {w}: operation error {opn["error"]} though no fault fired'))
          if opn['error'] and deployment != 'local':
            res.bump('probe.remote-pythia-error-op')
          if raised_now and opn['done'] and not opn['error']:
            viol.append(('algorithm-failure-not-reported',
                         f'{kind} by {w}: the algorithm call failed ({fault_now}) but the operation is done without an error ({len(opn["trials"])} trials for n={n})'))
          if fired_now and opn['done'] and not opn['error']:
            delivered_short = len(opn['trials']) < n
            if delivered_short:
              res.bump('probe.short-delivery')
        if kind == 'ClientSuggest' and out[0] == 'ok' and raised_now:
          viol.append(('algorithm-failure-not-reported',
                       f'client suggest by {w}: the algorithm call failed ({fault_now}) but the client returned {len(out[2])} trials without raising'))
        if kind == 'ClientSuggest' and out[0] == 'ok' and not fired_now and len(out[2]) != n:
          viol.append(('no-result-without-fault', f'client suggest by {w}: {len(out[2])} trials for n={n}'))
        if kind == 'ClientSuggest' and out[0] == 'err' and not fired_now and not hang:
          viol.append(('error-without-fault', f'client suggest by {w}: {out[1]} though no fault fired'))
        # surplus queued, nothing dropped
        if isinstance(snap['studies'].get(c['study'], {}).get('trials'), dict):
          post = snap['studies'][c['study']]['trials']
          new_req = [i for i, t in post.items() if i not in st_pre['trials'] and t['state'] == 'REQUESTED']
          if new_req:
            res.bump('probe.over-delivery-queued')

      # --- early stopping
      if kind == 'CheckES' and study_ok and isinstance(st_pre['trials'], dict):
        t = st_pre['trials'].get(c['trial'])
        if t is not None and t['state'] in ('ACTIVE', 'STOPPING'):
          old = es_pre.get((c['study'], c['trial']))
          must = None
          if old is None:
            must = 'no operation existed'
          elif old.status == vizier_oss_pb2.EarlyStoppingOperation.Status.DONE:
            age = clk.now - (old.completion_time.seconds + old.completion_time.nanos / 1e9)
            if age > cfg.get('recycle_s', 60.0) + 1.0:
              must = f'operation is {age:.0f}s old'
              res.bump('probe.early-stop-recycled')
          if must and reached['early_stop'] < 1 and not fired_now:
            viol.append(('early-stop-algorithm-not-reached', f'CheckES trial {c["trial"]}: {must} but the algorithm was not invoked; outcome {out[:2]}'))
          if fired_now:
            res.bump('probe.early-stop-fault-fired')
          if raised_now and out[0] == 'ok':
            viol.append(('algorithm-failure-not-reported',
                         f'CheckES trial {c["trial"]}: the algorithm call failed ({fault_now}) but the call returned {out[:2]}'))
          if not fired_now and must and out[0] != 'ok':
            viol.append(('early-stop-error-without-fault', f'CheckES trial {c["trial"]}: {out[:2]}'))

      # --- state invariants after every call
      sugg, es = scan_operations(sv, snap)
      for oname, o in sorted(sugg.items()):
        if not o.done:
          viol.append(('unfinished-operation-left-behind', f'after {kind}: {oname} is done=False'))
          break
      for (sname, tid), o in sorted(es.items()):
        if o.status == vizier_oss_pb2.EarlyStoppingOperation.Status.ACTIVE:
          viol.append(('early-stop-operation-left-active', f'after {kind}: early-stopping operation of trial {tid} is still ACTIVE'))
          break
      for clause, detail in mon.step(c, out if out[0] == 'ok' else ('ok',), snap):
        viol.append(('lifecycle.' + clause, detail))
      if viol:
        kinds = sorted(set(f['kind'].split(':')[0] + '@' + f['site'] for f in plan.get('faults', [])))
        seen = set()
        for clause, detail in viol:
          if clause in seen:
            continue
          seen.add(clause)
          res.violate(clause, f'step {step}: {detail}', sig=dict(sig_base, kind=kind, fault=fault_now), step=step)
        del kinds
        break
    total_fired = sum(factory.fired.values()) + sum(dep.net.fired.values())
    for k, v in dep.net.fired.items():
      res.bump('fault.net:' + k + '@pythia-link/' + deployment, v)
    for k, v in factory.fired.items():
      res.bump('fault.' + k + '/' + deployment, v)
    fkinds = tuple(sorted((f['site'], f['kind'], str(f['at'])) for f in plan.get('faults', [])))
    res.evaluation((deployment, cfg.get('via'), fkinds, tuple(classes)), total_fired > 0 and followup_same)
    res.sample = {'cfg': cfg, 'faults': plan.get('faults'), 'ops': plan['ops'][:10], 'fired': dict(factory.fired)}
    del fired_before_total


CHECK = C06()
