"""C04 - concurrent clients are serialisable (DESIGN §3 C04)."""
import collections
import copy
import itertools
import os
import sqlite3

from simkit import clock as simclock
from simkit import conc
from simkit import ops as O
from simkit import policies as P
from simkit import runner
from simkit import workload as W

from google.longrunning import operations_pb2

BATCH_KINDS = ['SuggestTrials', 'SuggestTrials', 'SuggestTrials', 'CreateTrial', 'CreateTrial',
               'CompleteTrial', 'CompleteTrial', 'AddTrialMeasurement', 'StopTrial', 'DeleteTrial',
               'DeleteStudy', 'UpdateMetadata', 'UpdateMetadata', 'SetStudyState', 'CreateStudy',
               'CheckES']
INCORP_KEY = 'incorporated_completed_trials_ids'


class Bench:
  """One real servicer instrumented for the scheduler, with save/restore."""

  def __init__(self, cfg):
    self.cfg = cfg
    factory = P.base_factory(cfg) if cfg.get('algorithm') == 'SEQUENCE' else None
    with conc.shims_installed():
      self.world = O.World(cfg, backend=cfg['backend'], policy_factory=factory)
    sv = self.world.sv
    self.sv = sv
    self.real_ds = sv.datastore
    sv.datastore = conc.DSProxy(self.real_ds)
    sv.default_pythia_service = conc.PythiaProxy(sv.default_pythia_service)
    self.saved = None
    self.prefix_concrete = []
    self._sql_points()

  def _sql_points(self):
    """SQL backends: every statement, commit and rollback on the shared connection is a pre-emption point
    too (finer than a datastore operation: a rollback or commit issued outside the datastore's own lock
    interleaves with another thread's statements)."""
    if self.cfg['backend'] == 'ram':
      return
    try:
      from simkit import crash  # pylint: disable=g-import-not-at-top
      from sqlalchemy import event  # pylint: disable=g-import-not-at-top
      engine = crash.find_engine(self.real_ds)
    except Exception:  # pylint: disable=broad-except
      return

    def point(tag):
      def fn(*a, **k):
        s = conc._ACTIVE[0]  # pylint: disable=protected-access
        if s is not None and s.cur is not None:
          s.yield_('sql.' + tag)
      return fn

    for name, tag in (('before_cursor_execute', 'stmt'), ('commit', 'commit'), ('rollback', 'rollback')):
      event.listen(engine, name, point(tag))

  def save(self):
    self.saved = None
    if os.environ.get('VERIF_FORCE_REBUILD') == '1':
      return  # self-test knob: the slow path must give the same results as the snapshot path
    try:
      if self.cfg['backend'] == 'ram':
        self.saved = ('ram', copy.deepcopy(self.real_ds._owners))  # pylint: disable=protected-access
      else:
        raw = self.real_ds._connection.connection.driver_connection  # pylint: disable=protected-access
        mem = sqlite3.connect(':memory:')
        raw.backup(mem)
        self.saved = ('sql', mem)
    except AttributeError:
      # The datastore's internals changed: fall back to rebuilding the prefix
      # state by re-execution (slower, same semantics).
      self.saved = None

  def restore(self):
    sv = self.sv
    if self.saved is None:
      self._rebuild()
    elif self.saved[0] == 'ram':
      self.real_ds._owners = copy.deepcopy(self.saved[1])  # pylint: disable=protected-access
    else:
      conn = self.real_ds._connection  # pylint: disable=protected-access
      try:
        conn.rollback()
      except Exception:  # pylint: disable=broad-except
        pass
      self.saved[1].backup(conn.connection.driver_connection)
    # Fresh locks: whatever a previous schedule left held (deadlock, crash) must
    # not leak into the next one. Found generically: every SimLock attribute and
    # every table of SimLocks, on the servicer and on the datastore.
    for obj in (sv, self.real_ds):
      for name, val in list(vars(obj).items()):
        if isinstance(val, conc.SimLock):
          setattr(obj, name, conc.SimLock(val.name))
        elif isinstance(val, collections.defaultdict) and (
            isinstance(val.default_factory, type) and issubclass(val.default_factory, conc.SimLock)
            or any(isinstance(v, conc.SimLock) for v in val.values())
            or getattr(val.default_factory, '__self__', None).__class__ is conc.ThreadingShim):
          val.clear()

  def _rebuild(self):
    """Slow path: new world, prefix re-executed."""
    self.sv.datastore = self.real_ds
    self.world.destroy()
    factory = P.base_factory(self.cfg) if self.cfg.get('algorithm') == 'SEQUENCE' else None
    with conc.shims_installed():
      self.world = O.World(self.cfg, backend=self.cfg['backend'], policy_factory=factory)
    sv = self.world.sv
    self.sv = sv
    self.real_ds = sv.datastore
    sv.datastore = conc.DSProxy(self.real_ds)
    sv.default_pythia_service = conc.PythiaProxy(sv.default_pythia_service)
    self._sql_points()
    for c in self.prefix_concrete:
      O.execute(sv, c, self.cfg)

  def destroy(self):
    if self.saved is not None and self.saved[0] == 'sql':
      self.saved[1].close()
    self.sv.datastore = self.real_ds
    self.world.destroy()


class SplitBench(Bench):
  """The unmodified DistributedPythiaVizierServer on the simulated network, under the scheduler.

  Client threads call through the Vizier stub; the Vizier server calls the separate Pythia server through
  a stub, and Pythia's policy supporter calls back into the Vizier server. The servers' executor sizes and
  concurrent-RPC limits are modelled by simnet (calibrated against real gRPC).
  """

  def __init__(self, cfg):  # pylint: disable=super-init-not-called
    from simkit import deploy  # pylint: disable=g-import-not-at-top
    from simkit import simnet  # pylint: disable=g-import-not-at-top
    self.cfg = cfg
    self.net = simnet.Net()
    self._ctx = simnet.installed(self.net)
    self._ctx.__enter__()
    self.saved = None
    self.prefix_concrete = []
    self.world = None
    self._build()

  def _build(self):
    from simkit import deploy  # pylint: disable=g-import-not-at-top
    cfg = self.cfg
    factory = P.base_factory(cfg) if cfg.get('algorithm') == 'SEQUENCE' else None
    with conc.shims_installed():
      self.dep = deploy.Deployment('split', cfg, self.net, policy_factory=factory, backend='ram')
    sv = self.dep.servicer
    self.sv = sv
    self.client = self.dep.service
    self.real_ds = sv.datastore
    sv.datastore = conc.DSProxy(self.real_ds)
    sv.default_pythia_service = conc.PythiaProxy(sv.default_pythia_service)

  def _rebuild(self):
    """Slow path (the datastore's internals are not the ones save() knows): new deployment, prefix re-executed."""
    self.sv.datastore = self.real_ds
    self.dep.destroy()
    self._build()
    for c in self.prefix_concrete:
      O.execute(self.sv, c, self.cfg)

  def restore(self):
    Bench.restore(self)
    for srv in self.net.all_servers:
      srv.reset_concurrency()

  def destroy(self):
    self.sv.datastore = self.real_ds
    try:
      self.dep.destroy()
    finally:
      self._ctx.__exit__(None, None, None)


def tcontent(t):
  return tuple((k, O.freeze(t[k])) for k in ('state', 'params', 'meas', 'final', 'client', 'reason', 'md'))


def observe(sv, owners=(0, 1)):
  """Observable state incl. all suggestion operations (by scanning names)."""
  snap = O.snapshot(sv, owners=owners, include_ops=False)
  ops = {}
  for name in snap['studies']:
    owner, sid = name.split('/')[1], name.split('/')[3]
    for w in O.WORKERS:
      k = 1
      while k < 100:
        oname = f'owners/{owner}/operations/suggestion/{sid}/{w}/{k}'
        r = O.call(sv.GetOperation, operations_pb2.GetOperationRequest(name=oname))
        if r[0] != 'ok':
          break
        ops[oname] = O.nop(r[1])
        k += 1
  snap['ops'] = ops
  return snap


def canon(kinds, outs, snap, old):
  """Canonical form up to renaming of trials created by the batch."""

  def lab(study, t):
    if (study, t['id']) in old:
      return ('old', t['id'], tcontent(t))
    return ('new', tcontent(t))

  def study_of(t):
    return t['name'].rsplit('/trials/', 1)[0]

  c_outs = []
  for kind, out in zip(kinds, outs):
    # The property compares: success or error class of every call, and the
    # trials handed out by each suggest or add-trial call.  Nothing else of a
    # response is compared (a returned Study/Trial echo may legitimately be a
    # slightly older read).
    if out[0] == 'err':
      c_outs.append(('err', out[1]))
    elif out[1] == 'trial' and kind == 'CreateTrial':
      c_outs.append(('trial', lab(study_of(out[2]), out[2])))
    elif out[1] == 'op':
      o = out[2]
      c_outs.append(('op', o['name'], o['done'], bool(o['error']),
                     tuple(sorted(repr(lab(study_of(t), t)) for t in o['trials']))))
    elif out[1] == 'md':
      # Relaxation (i): error_details is the NOT_FOUND family.
      c_outs.append(('err', 'NOT_FOUND') if out[2] == 'error' else ('ok',))
    else:
      c_outs.append(('ok',))
  studies = []
  for name in sorted(snap['studies']):
    st = snap['studies'][name]
    if not isinstance(st['study'], dict) or not isinstance(st['trials'], dict):
      studies.append((name, 'unreadable', repr(st)[:100]))
      continue
    trials = tuple(sorted(repr(lab(name, t)) for t in st['trials'].values()))
    studies.append((name, st['study']['state'], md_canon(st['study']['md']), trials))
  ops = tuple(sorted(
      (n, o['done'], bool(o['error']), tuple(sorted(repr(lab(study_of(t), t)) for t in o['trials'])))
      for n, o in snap['ops'].items()))
  owners = tuple(sorted((repr(k), repr(v)) for k, v in snap['owners'].items()))
  return (tuple(c_outs), tuple(studies), ops, owners)


def md_canon(md):
  # Relaxation (ii): the incorporated-ids cache entry is not compared for equality.
  return tuple(e for e in md if e[1] != INCORP_KEY)


class C04(runner.Check):
  prop = 'C04'
  level = 'exploration'
  engine = 'conc'
  rule = ('one evaluation = one (sequential prefix, batch of 2-3 concurrent RPCs, schedule): the batch '
          'runs in real threads under the seeded baton-passing scheduler (pre-emption at every datastore '
          'call, lock acquire/release and around Pythia; policies sticky / PCT / targeted), and the outcome '
          '(every response or error family + full snapshot incl. operations) must equal that of one of the '
          '<=6 serial orders of the same real code, up to renaming trials created by the batch; distinct = '
          'hash of the (thread, pre-emption point) trace; non-trivial iff another thread performed a '
          'datastore operation strictly inside some thread\'s first..last datastore operation')
  assumptions = [
      'pre-emption granularity is datastore call + lock operation; races inside one datastore method are out of scope (GIL + its own lock)',
      'UpdateMetadataResponse.error_details is treated as the NOT_FOUND family',
      'the designer_policy cache entry incorporated_completed_trials_ids is exempt from the comparison (a completion or deletion landing between a suggest and its Pythia call is legitimately seen by the policy; exactly-once delivery is C12)',
      'early-stopping answers are exempt from the comparison',
  ]
  runs = {'quick': 1600, 'thorough': 16000}
  budget_s = {'quick': 110, 'thorough': 1500}
  chunk = 8
  min_budget_runs = 120
  min_budget_s = 120
  probes = ['sched.blocked-on-lock', 'probe.rmw-window-entered', 'sched.policy.sticky',
            'sched.policy.pct', 'sched.policy.targeted', 'probe.over-delivering-algorithm',
            'probe.split-deployment-batch']

  def gen(self, rng, idx, tier):
    backend = rng.choice(['ram'] * 5 + ['sqlmem'])
    cfg = {
        'backend': backend, 'algorithm': rng.choice(['GRID_SEARCH', 'GRID_SEARCH', 'SEQUENCE']),
        'space': 'int10', 'metrics': 1, 'recycle_s': 60.0, 'epoch': simclock.EPOCH,
    }
    if cfg['algorithm'] == 'SEQUENCE':
      # an algorithm that always delivers more than asked: the surplus is queued as REQUESTED trials
      cfg['over'] = rng.choice([0, 0, 1, 2])
    profile = {'n_studies': 2, 'n_owners': 1, 'workers': 3, 'p_direct': 0.0}
    weights = {'SuggestTrials': 6, 'CreateTrial': 4, 'CompleteTrial': 3, 'AddTrialMeasurement': 1,
               'StopTrial': 1, 'UpdateMetadata': 1, 'CreateStudy': 1, 'CheckES': 1, 'M:pool': 2}
    prefix = W.gen_ops(rng, rng.randrange(1, 9), profile, weights)
    nb = rng.choice([2, 2, 2, 3])
    batch = []
    for _ in range(nb):
      k = rng.choice(BATCH_KINDS)
      if k == 'CreateStudy':
        batch.append([k, {'o': 0, 'd': rng.choice([0, 0, 1, 2]), 'state': 'ACTIVE'}])
        continue
      op = W.gen_op(rng, k, {'n_studies': 2, 'n_owners': 1, 'workers': 4, 'md_missing': False, 'p_direct': 0.0})
      op[1]['study'] = {'o': 0, 'd': 0} if rng.random() < 0.85 else {'o': 0, 'd': 1}
      if 'trial' in op[1]:
        op[1]['trial'] = {'pref': rng.choice(['active', 'active', 'mutable', 'requested', 'any', 'max']),
                          'i': rng.randrange(6)}
      if k == 'SetStudyState':
        op[1]['state'] = rng.choice(['ACTIVE', 'INACTIVE', 'ACTIVE'])
      if k == 'SuggestTrials':
        op[1]['n'] = rng.choice([1, 1, 2, 3])
      batch.append(op)
    if rng.random() < 0.06:
      # simultaneous create-or-load of one (new or existing) study by 2-3 clients
      d = rng.choice([0, 2, 2])
      batch = [['CreateStudy', {'o': 0, 'd': d, 'state': 'ACTIVE'}] for _ in range(rng.choice([2, 2, 3]))]
    r = rng.random()
    if 0.06 <= r < 0.24:
      # focused batch: a REQUESTED pool exists, one thread draws from it while the other(s) act on a
      # pooled / the same trial or allocate ids in the same study
      s0 = {'o': 0, 'd': 0}
      k = rng.choice([1, 2, 2, 3])
      prefix = prefix + [['CreateTrial', {'study': s0, 'x': rng.randrange(100), 'tkind': 'plain'}] for _ in range(k)]
      batch = [['SuggestTrials', {'study': s0, 'n': rng.choice([1, 2, 3, 4]), 'worker': rng.randrange(4)}]]
      for _ in range(nb - 1):
        k2 = rng.choice(['DeleteTrial', 'DeleteTrial', 'StopTrial', 'CompleteTrial', 'AddTrialMeasurement',
                         'UpdateMetadata', 'SuggestTrials', 'CreateTrial', 'CheckES'])
        op = W.gen_op(rng, k2, {'n_studies': 1, 'n_owners': 1, 'workers': 4, 'md_missing': False, 'p_direct': 0.0})
        op[1]['study'] = s0
        if 'trial' in op[1]:
          op[1]['trial'] = {'pref': rng.choice(['requested', 'requested', 'requested', 'active', 'max']), 'i': rng.randrange(k)}
        if k2 == 'SuggestTrials':
          op[1]['n'] = rng.choice([1, 2, 3])
        batch.append(op)
      rng.shuffle(batch)
    if 0.24 <= r < 0.30:
      # a failing call (metadata update naming a missing trial, delete of a missing study) next to
      # writes of other calls, on SQL: whatever the failing call undoes must be its own work only
      backend = cfg['backend'] = 'sqlmem'
      s0, s1 = {'o': 0, 'd': 0}, {'o': 0, 'd': 1}
      prefix = prefix + [['CreateStudy', {'o': 0, 'd': 1, 'state': 'ACTIVE'}],
                         ['SuggestTrials', {'study': s1, 'n': 2, 'worker': 1}]]
      failing = rng.choice([
          ['UpdateMetadata', {'study': s0, 'items': [{'trial': {'pref': 'missing', 'i': 0}, 'ns': 0, 'key': 0, 'value': ['S', 'v']},
                                                     {'trial': None, 'ns': 0, 'key': 1, 'value': ['S', 'w']}]}],
          ['DeleteStudy', {'study': {'o': 0, 'd': 3}}]])
      other = rng.choice([
          ['CompleteTrial', {'study': s1, 'trial': {'pref': 'active', 'i': 0}, 'ckind': 'final', 'v': 1, 'w': 1}],
          ['AddTrialMeasurement', {'study': s1, 'trial': {'pref': 'active', 'i': 0}, 'v': 1, 'w': 1, 'step': 1}],
          ['SuggestTrials', {'study': s0, 'n': 1, 'worker': 2}],
          ['CreateTrial', {'study': s1, 'x': 3, 'tkind': 'plain'}],
          ['UpdateMetadata', {'study': s1, 'items': [{'trial': None, 'ns': 1, 'key': 2, 'value': ['S', 'x']}]}]])
      batch = [failing, other] + ([rng.choice([other, failing])] if nb == 3 else [])
    if 0.30 <= r < 0.37:
      # the split deployment (separate Pythia server) under concurrent clients of one or two studies
      backend = cfg['backend'] = 'ram'
      cfg['deploy'] = 'split'
      cfg.pop('over', None)
      s0, s1 = {'o': 0, 'd': 0}, {'o': 0, 'd': 1}
      prefix = prefix + [['CreateStudy', {'o': 0, 'd': 1, 'state': 'ACTIVE'}],
                         ['SuggestTrials', {'study': s1, 'n': 1, 'worker': 1}]]
      batch = []
      for i in range(nb):
        st = rng.choice([s0, s1])
        k2 = rng.choice(['SuggestTrials', 'SuggestTrials', 'SuggestTrials', 'CheckES', 'CreateTrial', 'CompleteTrial'])
        if k2 == 'SuggestTrials':
          batch.append([k2, {'study': st, 'n': rng.choice([1, 2]), 'worker': 2 + i % 2}])
        elif k2 == 'CheckES':
          batch.append([k2, {'study': st, 'trial': {'pref': 'active', 'i': rng.randrange(3)}}])
        elif k2 == 'CreateTrial':
          batch.append([k2, {'study': st, 'x': rng.randrange(50), 'tkind': 'plain'}])
        else:
          batch.append([k2, {'study': st, 'trial': {'pref': 'active', 'i': rng.randrange(3)}, 'ckind': 'final', 'v': 1, 'w': 1}])
    ns = 20 if tier == 'quick' else 60
    if backend != 'ram':
      ns = max(4, ns // 4)
    scheds = []
    for _ in range(ns):
      kind = rng.choice(['sticky', 'sticky', 'pct', 'targeted'])
      scheds.append({'kind': kind, 'seed': rng.randrange(2**31), 'p': rng.choice([0.7, 0.85, 0.95]),
                     'd': rng.choice([2, 3])})
    return {'cfg': cfg, 'entropy': rng.randrange(2**31), 'ops': prefix, 'batch': batch, 'scheds': scheds}

  def shrink_lists(self, plan):
    return ['ops', 'scheds']

  def simplify(self, plan):
    # merge schedule bursts: fewer context switches in an explicit schedule
    for si, s in enumerate(plan['scheds']):
      ex = s.get('explicit')
      if not ex:
        continue
      for i in range(1, len(ex)):
        if ex[i] != ex[i - 1]:
          cand = ex[:i] + [ex[i - 1]] + ex[i + 1:]
          yield dict(plan, scheds=plan['scheds'][:si] + [dict(s, explicit=cand)] + plan['scheds'][si + 1:])
    if len(plan['batch']) > 2:
      for i in range(len(plan['batch'])):
        yield dict(plan, batch=plan['batch'][:i] + plan['batch'][i + 1:])
    if plan['cfg']['backend'] != 'ram':
      yield dict(plan, cfg=dict(plan['cfg'], backend='ram'))
    if plan['cfg'].get('over'):
      yield dict(plan, cfg=dict(plan['cfg'], over=0))
    yield from W.simplify_ops(plan)
    yield from W.simplify_ops(plan, field='batch')

  # ------------------------------------------------------------------ run
  def run(self, plan):
    res = runner.Result()
    cfg = plan['cfg']
    clk = simclock.SimClock(epoch=cfg.get('epoch', simclock.EPOCH))
    ent = simclock.Entropy(plan.get('entropy', 0))
    with simclock.installed(clk, ent):
      bench = SplitBench(cfg) if cfg.get('deploy') == 'split' else Bench(cfg)
      try:
        self._run(plan, res, bench, clk)
      finally:
        bench.destroy()
    res.sim_s += clk.elapsed
    ex = getattr(res, 'explicit', None)
    if ex is not None and res.violations:
      # Replay / minimisation use the explicit schedule only (no PRNG any more).
      spec = dict(plan['scheds'][ex['index']])
      spec['explicit'] = ex['choices']
      res.pinned_plan = dict(plan, scheds=[spec])
    return res

  def _run(self, plan, res, bench, clk):
    cfg = plan['cfg']
    sv = bench.sv
    for op in plan['ops']:
      if op[0] in ('Advance', 'ClockFault'):
        continue
      c = O.resolve(op, O.View(sv))
      bench.prefix_concrete.append(c)
      O.execute(sv, c, cfg)
    clk.tick = 0.0  # frozen for the batch and its serial references
    view = O.View(sv)
    batch = [O.resolve(op, view) for op in plan['batch']]
    base = observe(sv)
    old = {(n, i) for n, st in base['studies'].items() if isinstance(st['trials'], dict) for i in st['trials']}
    # An id freed by a delete inside the batch can be re-used by a trial created
    # in the batch; such ids take part in the renaming like new ones.
    for c in batch:
      if c['kind'] == 'DeleteTrial':
        old.discard((c['study'], c['trial']))
      elif c['kind'] == 'DeleteStudy':
        old = {(n, i) for (n, i) in old if n != c['study']}
    old_studies = set(base['studies'])
    bench.save()
    kinds = tuple(sorted(c['kind'] for c in batch))
    bkinds = [c['kind'] for c in batch]
    res.log.append(['batch', O.jsonable(batch)])

    split = cfg.get('deploy') == 'split'
    if split:
      res.bump('probe.split-deployment-batch')
    serial = {}
    for order in itertools.permutations(range(len(batch))):
      bench.restore()
      sv = bench.sv
      via = bench.client if split else sv  # clients of the split deployment talk to the Vizier stub
      outs = [None] * len(batch)
      for i in order:
        outs[i] = O.outcome_norm(batch[i]['kind'], O.execute(via, batch[i], cfg))
      serial[canon(bkinds, outs, observe(sv), old)] = order
    res.bump('serial.reference-runs', len(serial))

    for si, spec in enumerate(plan['scheds']):
      bench.restore()
      sv = bench.sv
      via = bench.client if split else sv
      explicit = spec.get('explicit')
      s = conc.Sched(policy=spec, explicit=explicit)
      for i, c in enumerate(batch):
        s.spawn(f'T{i}', (lambda c=c: O.execute(via, c, cfg)))
      status = s.run()
      res.bump('sched.policy.' + ('explicit' if explicit is not None else spec.get('kind', 'sticky')))
      res.bump('sched.steps', s.steps)
      res.bump('sched.switches', s.stats.get('switches', 0))
      if s.stats.get('blocked'):
        res.bump('sched.blocked-on-lock', s.stats['blocked'])
      for _, why in s.trace:
        res.bump('preempt.' + why.split(':')[0].split('.')[0])
      if cfg.get('over') and any(c['kind'] == 'SuggestTrials' for c in batch):
        res.bump('probe.over-delivering-algorithm')
      nontrivial = conc.rmw_interleaved(s.trace)
      if nontrivial:
        res.bump('probe.rmw-window-entered')
      res.evaluation((kinds, tuple(s.trace)), nontrivial)
      res.log.append(['sched', si, status, [list(x) for x in s.trace]])
      viol = []
      id_reused = False
      if status != 'done':
        viol.append(('deadlock', f'no runnable thread: {[(t["name"], t["blocked_on"].name if t["blocked_on"] else None) for t in s.tasks.values() if not t["done"]]}'))
      else:
        outs = []
        for i, c in enumerate(batch):
          r = s.tasks[f'T{i}']['res']
          raw = r[1] if r[0] == 'ok' else ('err', O.fam(r[1]), r[1])
          outs.append(O.outcome_norm(c['kind'], raw))
        res.log[-1].append(O.jsonable(outs))
        snap = observe(sv)
        got = canon(bkinds, outs, snap, old)
        if got not in serial:
          viol.append(self._explain(batch, outs, got, serial))
          # Narrow cause flag for the known-findings file: a trial deleted by the
          # batch had its id re-used by a trial created in the same batch.
          for c, o in zip(batch, outs):
            if c['kind'] == 'DeleteTrial' and o[0] == 'ok':
              st = snap['studies'].get(c['study'])
              if st and isinstance(st['trials'], dict) and c['trial'] in st['trials']:
                id_reused = True
          # ... or the re-created trial is gone again by the end of the batch: look at the datastore
          # calls themselves - a create_trial of a name that a delete_trial of this batch had removed
          deleted = set()
          for what, name in s.name_events:
            if what == 'delete_trial':
              deleted.add(name)
            elif name in deleted:
              id_reused = True
        for oname, o in snap['ops'].items():
          if not o['done']:
            viol.append(('unfinished-operation', f'{oname} left done=False by the batch'))
            break
        for name in old_studies - set(snap['studies']):
          o, d = O.OWNER_IDS.index(name.split('/')[1]), (O.STUDY_IDS.index(name.split('/')[3]) - O.ID_ROT[0]) % len(O.STUDY_IDS)
          O.execute(sv, {'kind': 'CreateStudy', 'owner': int(o), 'display': int(d), 'state': 'ACTIVE'}, cfg)
          r = O.outcome_norm('ListTrials', O.execute(sv, {'kind': 'ListTrials', 'study': name}, cfg))
          if r[0] != 'ok' or r[2]:
            viol.append(('orphan-rows-after-delete-study', f'{name} re-created after the batch is not empty: {r[:2]} {len(r[2]) if r[0] == "ok" else ""} trials'))
      if viol:
        seen = set()
        for clause, detail in viol:
          if clause not in seen:
            seen.add(clause)
            res.violate(clause, f'{detail} | batch={[c["kind"] for c in batch]} schedule#{si}',
                        sig={'kinds': list(kinds), 'store': ('split-deployment' if split else 'ram') if cfg['backend'] == 'ram' else 'sql',
                             'deleted_id_reused_in_batch': id_reused})
        # make the plan replayable with the explicit schedule only
        res.explicit = {'index': si, 'choices': list(s.choices)}
        break
    res.sample = {'cfg': cfg, 'prefix': plan['ops'][:8], 'batch': plan['batch'],
                  'first_schedule_trace': res.log[1][3][:40] if len(res.log) > 1 else None}

  def _explain(self, batch, outs, got, serial):
    """Names the part that matches no serial order."""
    parts = ('responses', 'studies-and-trials', 'operations', 'owners')
    best = None
    for ref in serial:
      diff = [parts[i] for i in range(4) if ref[i] != got[i]]
      if best is None or len(diff) < len(best):
        best = diff
    errs = [(c['kind'], o[1]) for c, o in zip(batch, outs) if o[0] == 'err']
    clause = 'not-serialisable:' + '+'.join(best or ['?'])
    if any(e[1].startswith('CRASH') or e[1] in ('ALREADY_EXISTS',) for e in errs):
      clause = 'call-failed-by-interleaving'
    return (clause, f'outcome equals no serial order; differs in {best}; errors={errs}')


CHECK = C04()
