"""C07 - RAM, SQLite-memory and SQLite-file backends agree (DESIGN §3 C07)."""
import random as _random

import numpy as _np

from simkit import clock as simclock
from simkit import ops as O
from simkit import runner
from simkit import workload as W
from checks import c01

BACKENDS = ['ram', 'sqlmem', 'sqlfile']


class DetState:
  """Save/restore of every nondeterminism source, for lock-step replicas."""

  def __init__(self, clk, ent):
    self.clk, self.ent = clk, ent

  def save(self):
    c = self.clk
    self.s = (c.now, c.frozen, c.coarse, c.reads, self.ent._rng.getstate(), self.ent.draws,  # pylint: disable=protected-access
              _random.getstate(), _np.random.get_state())

  def restore(self):
    c = self.clk
    c.now, c.frozen, c.coarse, c.reads, es, self.ent.draws, ps, ns = self.s
    self.ent._rng.setstate(es)  # pylint: disable=protected-access
    _random.setstate(ps)
    _np.random.set_state(ns)


def strip_ops(snap):
  return snap


class C07(runner.Check):
  prop = 'C07'
  level = 'exploration'
  engine = 'svc'
  rule = ('one evaluation = one generated history replayed in lock-step on three real servicers '
          '(RAM datastore, in-memory SQLite, SQLite file with clean close/reopen faults) sharing one '
          'simulated clock and entropy stream; per step the normalised responses / error families must '
          'be equal, and the full API snapshot (studies, trials, every operation ever returned) must be '
          'equal after every step; distinct = hash of (op kinds + argument classes + outcome classes); '
          'non-trivial iff the history contains a delete-and-recreate of a study, a failing metadata '
          'update, or a reopen of the file backend')
  assumptions = [
      'the RAM datastore is the executable reference; no model is involved',
      'timestamps are masked; SQLite itself is trusted',
  ]
  runs = {'quick': 2400, 'thorough': 30000}
  budget_s = {'quick': 100, 'thorough': 1200}
  chunk = 10
  probes = ['probe.delete-recreate', 'probe.metadata-rejected-missing-trial', 'restart.clean',
            'probe.early-stop-answered', 'probe.early-stop-recycled']

  def gen(self, rng, idx, tier):
    algo, space = rng.choice(c01.ALGOS)
    cfg = {
        'algorithm': algo, 'space': space, 'metrics': rng.choice([1, 2]),
        'recycle_s': rng.choice([0.1, 60.0, 60.0]), 'epoch': simclock.EPOCH + rng.randrange(10**6),
    }
    cfg['id_rot'] = rng.randrange(len(O.STUDY_IDS))  # which adversarial id the main study carries
    cfg['tz_h'] = rng.choice([0, 0, 9, -8, 5.5])  # the host's local time zone (hours east of UTC)
    n = rng.randrange(5, 31 if tier == 'quick' else 61)
    profile = {'n_studies': rng.choice([1, 2]), 'n_owners': rng.choice([1, 2]),
               'workers': rng.choice([1, 2, 3]), 'p_direct': rng.choice([0.1, 0.3])}
    weights = dict(W.BASE_WEIGHTS)
    weights.update({'DeleteStudy': 3, 'CreateStudy': 5, 'UpdateMetadata': 6, 'Reopen': 2,
                    'CheckES': 4, 'GetOperation': 2, 'Advance': 2})
    weights = W.swarm_weights(rng, weights, always=('CreateStudy', 'SuggestTrials', 'CompleteTrial', 'DeleteStudy'))
    return {'cfg': cfg, 'entropy': rng.randrange(2**31), 'ops': W.gen_ops(rng, n, profile, weights)}

  def run(self, plan):
    res = runner.Result()
    cfg = plan['cfg']
    clk = simclock.SimClock(epoch=cfg.get('epoch', simclock.EPOCH), tz_offset=3600.0 * cfg.get('tz_h', 0))
    ent = simclock.Entropy(plan.get('entropy', 0))
    det = DetState(clk, ent)
    with simclock.installed(clk, ent):
      worlds = [O.World(cfg, backend=b) for b in BACKENDS]
      try:
        classes = []
        deleted = set()
        es_seen = set()
        nontrivial = False
        for step, op in enumerate(plan['ops']):
          kind = op[0]
          if kind == 'Advance':
            clk.advance(op[1]['dt'])
            res.bump('clock.advance')
            continue
          if kind == 'ClockFault':
            clk.fault(op[1]['fault'], op[1].get('arg', 0))
            res.bump('clock.' + op[1]['fault'])
            continue
          if kind == 'Reopen':
            worlds[2].reopen()
            res.bump('restart.clean')
            nontrivial = True
            continue
          ref = worlds[0]
          if kind == 'GetOperation':
            names = ref.op_names
            if op[1].get('missing') or not names:
              c = {'kind': kind, 'name': 'owners/o0/operations/suggestion/s0/w0/99'}
            else:
              c = {'kind': kind, 'name': names[op[1]['sel'] % len(names)]}
          else:
            c = O.resolve(op, O.View(ref.sv))
          outs = []
          det.save()
          es_before = ref.calls.get('EarlyStop', 0)
          had_es_op = kind == 'CheckES' and (c['study'], c['trial']) in es_seen
          for w in worlds:
            det.restore()
            outs.append(O.outcome_norm(kind, O.execute(w.sv, c, cfg)))
          out = outs[0]
          if out[0] == 'ok' and out[1] == 'op':
            for w, o in zip(worlds, outs):
              if o[0] == 'ok' and o[1] == 'op' and o[2]['name'] not in w.op_names:
                w.op_names.append(o[2]['name'])
          res.bump('op.' + kind)
          classes.append(W.op_classes(c) + (out[0] if out[0] == 'ok' else out[1],))
          res.log.append([O.jsonable(c), [O.jsonable(o) for o in outs]])
          if kind == 'DeleteStudy' and out[0] == 'ok':
            deleted.add(c['study'])
          if kind == 'CreateStudy' and out[0] == 'ok' and out[2]['name'] in deleted:
            res.bump('probe.delete-recreate')
            nontrivial = True
          if kind == 'UpdateMetadata' and out[:3] == ('ok', 'md', 'error'):
            res.bump('probe.metadata-rejected-missing-trial')
            nontrivial = True
          if kind == 'CheckES' and out[0] == 'ok':
            res.bump('probe.early-stop-answered')
            if had_es_op and ref.calls.get('EarlyStop', 0) > es_before:
              res.bump('probe.early-stop-recycled')
            es_seen.add((c['study'], c['trial']))
          if kind in ('DeleteStudy', 'DeleteTrial') and out[0] == 'ok':
            es_seen = {k for k in es_seen if k[0] != c['study']}
          if len({w.calls.get('Suggest', 0) for w in worlds}) > 1 or len(
              {w.calls.get('EarlyStop', 0) for w in worlds}) > 1:
            res.violate('algorithm-invocations-differ',
                        f'step {step} {kind}: Pythia calls {[dict(w.calls) for w in worlds]}',
                        sig={'kind': kind}, step=step)
          bad = False
          for b, o in zip(BACKENDS[1:], outs[1:]):
            if o != out:
              a, bb = (out[:2], o[:2]) if out[:2] != o[:2] else ('same-shape', 'content differs')
              res.violate('response-differs', f'step {step} {kind}: ram={a} {b}={bb}',
                          sig={'kind': kind, 'backend': b, 'ram': str(out[:2]), 'other': str(o[:2])},
                          step=step)
              bad = True
          all_names = sorted(set(n for w in worlds for n in w.op_names))
          snaps = [O.freeze(O.snapshot(w.sv, op_names=all_names)) for w in worlds]
          for b, s in zip(BACKENDS[1:], snaps[1:]):
            if s != snaps[0]:
              what = 'state'
              for i, part in enumerate(('ops', 'owners', 'studies')):
                if dict(s).get(repr(part)) != dict(snaps[0]).get(repr(part)):
                  what = part
              res.violate('stored-state-differs', f'after step {step} {kind}: ram vs {b} differ in {what}',
                          sig={'kind': kind, 'backend': b, 'part': what}, step=step)
              bad = True
          if bad:
            break
        res.evaluation(tuple(classes), nontrivial)
        res.sim_s += clk.elapsed
        res.sample = {'algorithm': cfg['algorithm'], 'space': cfg['space'], 'n_ops': len(plan['ops']),
                      'ops': plan['ops'][:12]}
      finally:
        for w in worlds:
          w.destroy()
    return res

  def simplify(self, plan):
    return W.simplify_ops(plan)


CHECK = C07()
