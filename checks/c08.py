"""C08 - local, gRPC and split-Pythia deployments behave identically for clients (DESIGN §3 C08)."""
import datetime

import grpc

from simkit import clock as simclock
from simkit import deploy
from simkit import ops as O
from simkit import runner
from simkit import simnet
from checks import c07

from vizier._src.service import clients
from vizier._src.service import constants
from vizier._src.service import vizier_client
from vizier._src.service import vizier_service
from vizier.client import client_abc
from vizier.service import pyvizier as vz

DEPLOYS = ['local', 'grpc', 'split']
MAIN = O.study_name(0, 0)


def cfam(e):
  """Exception family as seen by a client program."""
  if isinstance(e, client_abc.ResourceNotFoundError):
    return 'ResourceNotFound'
  if isinstance(e, grpc.RpcError):
    return 'Rpc:' + O.fam(e)
  if isinstance(e, RuntimeError):
    return 'RuntimeError'
  if isinstance(e, (KeyError, LookupError)):
    return 'Rpc:NOT_FOUND'  # the raw datastore error of the in-process deployment
  if isinstance(e, ValueError):
    return 'ValueError'
  return 'CRASH:' + type(e).__name__


def ntr(t):
  """Normalised pyvizier trial (no timestamps)."""
  fm = None
  if t.final_measurement is not None:
    fm = tuple(sorted((k, v.value) for k, v in t.final_measurement.metrics.items()))
  return {
      'id': t.id, 'status': str(t.status), 'infeasible': t.infeasible,
      'params': tuple(sorted((k, v.value) for k, v in t.parameters.items())),
      'final': fm, 'n_meas': len(t.measurements), 'worker': t.assigned_worker,
      'md': tuple(sorted((tuple(ns), k, str(v)[:40]) for ns, k, v in t.metadata.all_items())),
      'stopping': t.stopping_reason is not None if hasattr(t, 'stopping_reason') else None,
  }


def _trial_handle(study, trial_id):
  for val in deploy._members(study):  # pylint: disable=protected-access
    if isinstance(val, vizier_client.VizierClient):
      return clients.Trial(val, trial_id)
  raise AttributeError('no VizierClient found in the Study object')


def _clear_local_servicer_cache():
  for name in dir(vizier_client):
    f = getattr(vizier_client, name)
    if callable(f) and hasattr(f, 'cache_clear') and 'servicer' in name:
      f.cache_clear()


class Dep:
  """One deployment + how a client reaches it."""

  def __init__(self, kind, cfg, net):
    self.kind = kind
    recycle = datetime.timedelta(seconds=cfg.get('recycle_s', 60.0))
    url = {'ram': None, 'sqlmem': constants.SQL_MEMORY_URL}[cfg['backend']]
    self.study = None
    if kind == 'local':
      self.endpoint = constants.NO_ENDPOINT
      self.kwargs = {'database_url': url, 'early_stop_recycle_period': recycle}
      self.select()
      _clear_local_servicer_cache()
      self.servicer = vizier_client.create_vizier_servicer_or_stub()  # the implicit in-process servicer
      self.inner = None
    else:
      self.inner = deploy.Deployment(kind, cfg, net, backend=cfg['backend'])
      self.servicer = self.inner.servicer
      self.endpoint = self.inner.server.endpoint
      self.kwargs = {}

  def select(self):
    ev = vizier_client.environment_variables
    ev.server_endpoint = self.endpoint
    ev.servicer_kwargs = dict(self.kwargs)

  def destroy(self):
    if self.inner is not None:
      self.inner.destroy()
    else:
      O.close_datastore(self.servicer.datastore)


def do_call(dep, c, cfg):
  """Executes one client-level call on one deployment. Returns normalised outcome."""
  kind = c['kind']
  try:
    if kind == 'Create':
      dep.study = clients.Study.from_study_config(O.study_config(cfg), owner='o0', study_id='s0')
      return ('ok', dep.study.resource_name)
    if kind == 'Load':
      dep.study = clients.Study.from_resource_name(MAIN)
      return ('ok', dep.study.resource_name)
    if kind == 'LoadByOwner':
      dep.study = clients.Study.from_owner_and_id(c.get('owner', 'o0'), c.get('sid', 's0'))
      return ('ok', dep.study.resource_name)
    if kind == 'ListStudies':
      cl = vizier_client.VizierClient(MAIN, 'unused', vizier_client.create_vizier_servicer_or_stub())
      import json as _json  # pylint: disable=g-import-not-at-top
      docs = [_json.loads(d) if isinstance(d, str) else dict(d) for d in cl.list_studies()]
      return ('ok', sorted((d.get('name'), d.get('displayName'), d.get('state')) for d in docs))
    if kind == 'LoadMissing':
      clients.Study.from_resource_name('owners/o0/studies/nope')
      return ('ok', 'loaded-missing')
    st = dep.study
    if st is None:
      return ('skip',)
    if kind == 'Suggest':
      ts = st.suggest(count=c['n'], client_id=O.WORKERS[c['worker'] % len(O.WORKERS)])
      return ('ok', [ntr(t.materialize()) for t in ts])
    if kind == 'ListTrials':
      return ('ok', sorted((ntr(t) for t in st.trials().get()), key=lambda t: t['id']))
    if kind == 'TrialsFiltered':
      f = {'completed': vz.TrialFilter(status=[vz.TrialStatus.COMPLETED]),
           'active': vz.TrialFilter(status=[vz.TrialStatus.ACTIVE]),
           'min-id': vz.TrialFilter(min_id=c.get('i', 2)),
           'ids': vz.TrialFilter(ids=[1, c.get('i', 2), 77])}[c.get('filter', 'completed')]
      return ('ok', sorted(t.id for t in st.trials(f).get()))
    if kind == 'ProblemStatement':
      ps = st.materialize_problem_statement()
      return ('ok', (tuple(sorted(pc.name for pc in ps.search_space.parameters)),
                     tuple(sorted((m.name, str(m.goal)) for m in ps.metric_information))))
    if kind == 'OptimalCount':
      return ('ok', sorted(t.id for t in st.optimal_trials(count=c.get('i', 1)).get()))
    if kind == 'Optimal':
      return ('ok', sorted(t.id for t in st.optimal_trials().get()))
    if kind == 'GetTrial':
      t = st.get_trial(c['trial'])
      return ('ok', ntr(t.materialize()))
    if kind == 'Parameters':
      return ('ok', tuple(sorted(st.get_trial(c['trial']).parameters.items())))
    if kind == 'AddTrial':
      params = O.param_values(cfg['space'], c['x'])
      if not c.get('inspace', True):
        params = dict(params)
        k0 = sorted(params)[0]
        params[k0] = 12345.0 if not isinstance(params[k0], str) else 'not-a-category'
      t = vz.Trial(parameters=params)
      if c.get('completed'):
        t.complete(vz.Measurement({'m': float(c.get('v', 1))}))
      return ('ok', ntr(st.add_trial(t).materialize()))
    if kind == 'Request':
      t = st.request(vz.TrialSuggestion(O.param_values(cfg['space'], c['x'])))
      return ('ok', ntr(t.materialize()))
    if kind == 'SetState':
      st.set_state(getattr(vz.StudyState, c['state']))
      return ('ok',)
    if kind == 'GetState':
      return ('ok', str(st.materialize_state()))
    if kind == 'StudyMD':
      md = vz.Metadata()
      md.ns(c['ns'])[c['key']] = c['value']
      st.update_metadata(md)
      return ('ok',)
    if kind == 'GetConfigMD':
      cfgm = st.materialize_study_config()
      return ('ok', tuple(sorted((tuple(ns), k, str(v)[:40]) for ns, k, v in cfgm.metadata.all_items()
                                 if not (ns and ns[0] == 'designer_policy_v0'))))
    if kind == 'DeleteStudy':
      st.delete()
      return ('ok',)
    # A Trial handle for an id that may not exist: TrialIterable-free construction
    # needs the study's client; take it from a materialised handle's public `study`.
    tr = _trial_handle(st, c['trial'])
    if kind == 'Complete':
      ck = c.get('ckind', 'final')
      if ck == 'final':
        r = tr.complete(vz.Measurement({'m': float(c.get('v', 0))}))
      elif ck == 'infeasible':
        r = tr.complete(infeasible_reason='bad')
      else:
        r = tr.complete()
      return ('ok', None if r is None else tuple(sorted((k, v.value) for k, v in r.metrics.items())))
    if kind == 'AddMeasurement':
      tr.add_measurement(vz.Measurement({'m': float(c.get('v', 0))}, steps=c.get('step', 1)))
      return ('ok',)
    if kind == 'LongCurve':
      # a long learning curve: large stored trial (transport size limits matter for what embeds it)
      for i in range(c.get('n', 260)):
        tr.add_measurement(vz.Measurement({'m': float(i % 7)}, steps=i + 1))
      return ('ok',)
    if kind == 'Stop':
      tr.stop()
      return ('ok',)
    if kind == 'CheckES':
      return ('ok', bool(tr.check_early_stopping()))
    if kind == 'DeleteTrial':
      tr.delete()
      return ('ok',)
    if kind == 'TrialMD':
      md = vz.Metadata()
      md.ns(c['ns'])[c['key']] = c['value']
      tr.update_metadata(md)
      return ('ok',)
    raise ValueError(kind)
  except Exception as e:  # pylint: disable=broad-except
    return ('err', cfam(e), f'{type(e).__name__}: {str(e)[:120]}')


class C08(runner.Check):
  prop = 'C08'
  level = 'exploration'
  engine = 'simnet'
  rule = ('one evaluation = one generated client program (clients.Study / clients.Trial calls incl. error '
          'paths: missing study or trial, finished study, completing twice, out-of-space add_trial, metadata '
          'on a deleted trial, calls after delete) executed in lock-step against the implicit in-process '
          'servicer, the unmodified DefaultVizierServer and the unmodified DistributedPythiaVizierServer on '
          'the simulated network, on RAM or SQLite; per call the returned values and the exception family, '
          'and at the end the stored state, must be equal; distinct = hash of (client call kinds, outcome '
          'families); non-trivial iff >=1 error path and >=1 algorithm call')
  assumptions = [
      'simnet models gRPC status semantics; the thorough tier calibrates it against a real loopback grpc.server',
      'all three deployments are configured with the same early-stop recycle period',
  ]
  runs = {'quick': 1600, 'thorough': 16000}
  budget_s = {'quick': 100, 'thorough': 1200}
  chunk = 10
  probes = ['probe.error-path', 'probe.algorithm-call', 'probe.resource-not-found', 'probe.finished-study-suggest',
            'probe.complete-twice', 'probe.out-of-space-add', 'probe.metadata-on-missing-trial',
            'probe.call-after-delete-study', 'probe.long-learning-curve', 'probe.early-stop-answered',
            'probe.early-stop-answer-true']

  def setup_tier(self, tier):
    if tier != 'thorough':
      return {}
    from simkit import calibrate  # pylint: disable=g-import-not-at-top
    return {'simnet_calibration': calibrate.run()}

  def gen(self, rng, idx, tier):
    cfg = {'backend': rng.choice(['ram', 'sqlmem']),
           'algorithm': rng.choice(['GRID_SEARCH', 'QUASI_RANDOM_SEARCH', 'RANDOM_SEARCH', 'GRID_SEARCH']),
           'space': rng.choice(['int10', 'mixed']), 'metrics': 1, 'recycle_s': 60.0,
           'epoch': simclock.EPOCH + rng.randrange(10**6)}
    tsel = lambda prefs=None: {'pref': rng.choice(prefs or ['active', 'active', 'any', 'completed', 'missing', 'max']), 'i': rng.randrange(8)}
    ops = [['Create', {}]]
    n = rng.randrange(5, 22 if tier == 'quick' else 40)
    kinds = (['Suggest'] * 6 + ['Complete'] * 6 + ['GetTrial'] * 2 + ['ListTrials', 'Optimal', 'Optimal', 'Parameters',
             'AddTrial', 'AddTrial', 'Request', 'SetState', 'GetState', 'StudyMD', 'GetConfigMD', 'TrialMD', 'TrialMD',
             'AddMeasurement', 'AddMeasurement', 'Stop', 'CheckES', 'DeleteTrial', 'Load', 'LoadMissing',
             'DeleteStudy', 'Create', 'LoadByOwner', 'LoadByOwner', 'ListStudies', 'TrialsFiltered', 'TrialsFiltered',
             'ProblemStatement', 'OptimalCount'])
    if rng.random() < 0.04:
      # rare: one trial with a very long learning curve, then error paths on it
      ops += [['Suggest', {'n': 1, 'worker': 0}], ['LongCurve', {'trial': {'pref': 'active', 'i': 0}, 'n': 260}],
              ['Complete', {'trial': {'pref': 'active', 'i': 0}, 'ckind': 'final', 'v': 1}],
              ['Complete', {'trial': {'pref': 'completed', 'i': 0}, 'ckind': 'final', 'v': 2}],
              ['AddMeasurement', {'trial': {'pref': 'completed', 'i': 0}, 'v': 1, 'step': 1}],
              ['CheckES', {'trial': {'pref': 'completed', 'i': 0}}]]
    while len(ops) < n:
      k = rng.choice(kinds)
      a = {}
      if rng.random() < 0.05:
        # early-stopping question asked twice within the recycle period (second answer is the stored one),
        # then once more after the period has passed
        sel = {'pref': 'active', 'i': rng.randrange(3)}
        ops += [['Suggest', {'n': rng.choice([1, 1, 2]), 'worker': 0}],
                ['AddMeasurement', {'trial': sel, 'v': rng.randrange(6), 'step': 1}],
                ['CheckES', {'trial': sel}], ['CheckES', {'trial': sel}]]
        if rng.random() < 0.5:
          ops += [['Advance', {'s': rng.choice([30.0, 61.0, 200.0])}], ['CheckES', {'trial': sel}]]
        continue
      if k == 'Suggest':
        a = {'n': rng.choice([1, 1, 2, 3]), 'worker': rng.randrange(3)}
      elif k == 'Complete':
        a = {'trial': tsel(), 'ckind': rng.choice(['final', 'final', 'final', 'infeasible', 'none']), 'v': rng.randrange(6)}
      elif k in ('GetTrial', 'Parameters', 'Stop', 'CheckES', 'DeleteTrial'):
        a = {'trial': tsel()}
      elif k == 'AddMeasurement':
        a = {'trial': tsel(), 'v': rng.randrange(6), 'step': rng.randrange(1, 5)}
      elif k == 'TrialMD':
        a = {'trial': tsel(), 'ns': rng.choice(['a', 'b']), 'key': rng.choice(['k1', 'k2']), 'value': str(rng.randrange(20))}
      elif k == 'StudyMD':
        a = {'ns': rng.choice(['a', 'b']), 'key': rng.choice(['k1', 'k2']), 'value': str(rng.randrange(20))}
      elif k == 'AddTrial':
        a = {'x': rng.randrange(40), 'inspace': rng.random() < 0.7, 'completed': rng.random() < 0.5, 'v': rng.randrange(6)}
      elif k == 'Request':
        a = {'x': rng.randrange(40)}
      elif k == 'SetState':
        a = {'state': rng.choice(['ACTIVE', 'ABORTED', 'COMPLETED'])}
      elif k == 'LoadByOwner':
        a = {'owner': rng.choice(['o0', 'o0', 'o0', 'nobody']), 'sid': rng.choice(['s0', 's0', 's0', 'nope'])}
      elif k == 'TrialsFiltered':
        a = {'filter': rng.choice(['completed', 'active', 'min-id', 'ids']), 'i': rng.randrange(1, 6)}
      elif k == 'OptimalCount':
        a = {'i': rng.randrange(1, 3)}
      ops.append([k, a])
    return {'cfg': cfg, 'entropy': rng.randrange(2**31), 'ops': ops}

  def simplify(self, plan):
    if plan['cfg'].get('backend') != 'ram':
      yield dict(plan, cfg=dict(plan['cfg'], backend='ram'))

  def run(self, plan):
    res = runner.Result()
    cfg = plan['cfg']
    clk = simclock.SimClock(epoch=cfg.get('epoch', simclock.EPOCH))
    ent = simclock.Entropy(plan.get('entropy', 0))
    det = c07.DetState(clk, ent)
    net = simnet.Net(clk)
    ev = vizier_client.environment_variables
    saved_env = (ev.server_endpoint, dict(ev.servicer_kwargs))
    with simclock.installed(clk, ent), simnet.installed(net):
      deps = []
      try:
        for k in DEPLOYS:
          deps.append(Dep(k, cfg, net))
        self._drive(plan, res, deps, det)
      finally:
        for d in deps:
          d.destroy()
        ev.server_endpoint, ev.servicer_kwargs = saved_env
        _clear_local_servicer_cache()
    res.sim_s += clk.elapsed
    return res

  def _drive(self, plan, res, deps, det):
    cfg = plan['cfg']
    classes = []
    had_error = False
    had_algo = False
    deleted = False
    for step, op in enumerate(plan['ops']):
      kind, a = op[0], dict(op[1])
      if kind == 'Advance':
        det.clk.advance(a["s"])
        continue
      c = dict(a, kind=kind)
      if 'trial' in a:
        view = O.View(deps[0].servicer, owners=(0,))
        c['trial'] = O.resolve_trial(a['trial'], MAIN, view)
      pre = O.snapshot(deps[0].servicer, owners=(0,), include_ops=False)
      outs = []
      det.save()
      calls0 = deps[0].servicer.default_pythia_service
      del calls0
      for d in deps:
        det.restore()
        d.select()
        outs.append(do_call(d, c, cfg))
      res.bump('call.' + kind)
      out = outs[0]
      fam = out[0] if out[0] != 'err' else out[1]
      classes.append((kind, fam))
      res.log.append([O.jsonable(c), [O.jsonable(o[:2]) for o in outs]])
      if out[0] == 'err':
        had_error = True
        res.bump('probe.error-path')
        if out[1] == 'ResourceNotFound':
          res.bump('probe.resource-not-found')
        if deleted:
          res.bump('probe.call-after-delete-study')
      st = pre['studies'].get(MAIN)
      if kind == 'Suggest' and out[0] == 'ok':
        if out[1]:
          had_algo = True
          res.bump('probe.algorithm-call')
        elif st and isinstance(st['study'], dict) and st['study']['state'] not in O.MUTABLE_STUDY:
          res.bump('probe.finished-study-suggest')
      if kind == 'Complete' and st and isinstance(st['trials'], dict):
        t = st['trials'].get(c['trial'])
        if t is not None and t['state'] in ('SUCCEEDED', 'INFEASIBLE'):
          res.bump('probe.complete-twice')
      if kind == 'AddTrial' and not c.get('inspace', True):
        res.bump('probe.out-of-space-add')
      if kind == 'TrialMD' and st and isinstance(st['trials'], dict) and c['trial'] not in st['trials']:
        res.bump('probe.metadata-on-missing-trial')
      if kind == 'CheckES' and out[0] == 'ok':
        res.bump('probe.early-stop-answered')
        if out[1]:
          res.bump('probe.early-stop-answer-true')
      if kind == 'LongCurve' and out[0] == 'ok':
        res.bump('probe.long-learning-curve')
      if kind == 'DeleteStudy' and out[0] == 'ok':
        deleted = True
      if kind == 'Create':
        deleted = False
      viol = []
      for dk, o in zip(DEPLOYS[1:], outs[1:]):
        if o[:2] != out[:2]:
          if o[0] != out[0] or (o[0] == 'err' and o[1] != out[1]):
            a_, b_ = (out[0] if out[0] != 'err' else out[1]), (o[0] if o[0] != 'err' else o[1])
            viol.append(('outcome-class-differs', f'{kind}: local={a_} {dk}={b_} ({out[2] if out[0] == "err" else ""} | {o[2] if o[0] == "err" else ""})',
                         {'call': kind, 'deploy': dk, 'local': str(a_), 'other': str(b_)}))
          else:
            viol.append(('returned-value-differs', f'{kind}: local={str(out[1])[:150]} {dk}={str(o[1])[:150]}',
                         {'call': kind, 'deploy': dk}))
      snaps = [O.freeze(O.snapshot(d.servicer, owners=(0,), include_ops=False)) for d in deps]
      for dk, s in zip(DEPLOYS[1:], snaps[1:]):
        if s != snaps[0]:
          viol.append(('stored-state-differs', f'after {kind}: local vs {dk}', {'call': kind, 'deploy': dk}))
      if viol:
        seen = set()
        for clause, detail, sig in viol:
          key = clause + str(sig)
          if key not in seen:
            seen.add(key)
            res.violate(clause, f'step {step}: {detail}', sig=sig, step=step)
        break
    res.evaluation(tuple(classes), had_error and had_algo)
    res.sample = {'cfg': cfg, 'ops': plan['ops'][:10], 'outcomes': classes[:10]}


CHECK = C08()

del vizier_service
