"""C05 - SQL-file service survives a crash at any point (DESIGN §3 C05)."""
import os
import shutil
import tempfile

from simkit import clock as simclock
from simkit import crash
from simkit import model as M
from simkit import ops as O
from simkit import policies as P
from simkit import runner
from simkit import workload as W

from vizier._src.service import vizier_client
from vizier.service import pyvizier as vz

ATOMIC = {'CreateStudy', 'CreateTrial', 'CompleteTrial', 'AddTrialMeasurement', 'StopTrial',
          'DeleteTrial', 'SetStudyState', 'UpdateMetadata', 'DeleteStudy'}
MULTI = {'SuggestTrials', 'CheckES'}
POLL_CAP = 50


class PollBudgetExceeded(BaseException):
  pass


def candidate_studies():
  return [O.study_name(o, d) for o in (0, 1) for d in (0, 1, 2)]


def state_of(sv):
  snap = O.snapshot(sv, include_ops=False)
  # Also address every candidate study directly: a study row that exists but is
  # not reachable through its owner's listing must not go unnoticed.
  direct = {}
  for name in candidate_studies():
    g = O.call(sv.GetStudy, O.vs.GetStudyRequest(name=name))
    direct[name] = O.nstudy(g[1]) if g[0] == 'ok' else ('err', g[1])
    if g[0] == 'ok' and name not in snap['studies']:
      t = O.call(sv.ListTrials, O.vs.ListTrialsRequest(parent=name))
      direct[name + '#trials'] = sorted(int(x.id) for x in t[1].trials) if t[0] == 'ok' else ('err', t[1])
  return {'owners': snap['owners'], 'studies': snap['studies'], 'direct': direct}


def es_records(sv, state):
  """Early-stopping records of every listed trial, read through the datastore's public read method.

  They are not part of the GetOperation surface, but an acknowledged
  CheckTrialEarlyStoppingState answer lives there: a restarted server that
  holds another record answers the next check differently.
  """
  from vizier._src.service import resources  # pylint: disable=g-import-not-at-top
  out = {}
  for name, st in state['studies'].items():
    if not isinstance(st.get('trials'), dict):
      continue
    owner, sid = name.split('/')[1], name.split('/')[3]
    for tid in st['trials']:
      oname = resources.EarlyStoppingOperationResource(owner, sid, int(tid)).name
      try:
        op = sv.datastore.get_early_stopping_operation(oname)
      except KeyError:
        continue
      except Exception as e:  # pylint: disable=broad-except
        out[oname] = ('unreadable', type(e).__name__)
        continue
      out[oname] = (int(op.status), bool(op.should_stop), bool(op.failure_message))
  return out


class C05(runner.Check):
  prop = 'C05'
  level = 'fault_enumeration'
  engine = 'crash'
  rule = ('one evaluation = one (history, crash point): the history (3-15 ops, all RPC kinds, REQUESTED '
          'pool, over-delivery, multi-item metadata updates, delete-study with trials) runs on the real '
          'servicer over an SQLite file; at every SQL statement / commit boundary of the armed ops the '
          'database file and its journal are captured (byte-identical images merged) and a brand-new '
          'servicer is started on each image; checked: readable, acknowledged state present (incl. the early-stopping records), interrupted '
          'single-resource call all-or-nothing, legal transitions and fresh ids, and liveness (interrupted '
          'and fresh worker obtain trials through the real client within 50 simulated polls and can '
          'complete one); distinct = hash of (interrupted op kind, image sequence number, hot journal?, '
          'history hash); non-trivial iff the crash point lies inside an RPC that writes')
  assumptions = [
      'SQLite atomic commit and hot-journal rollback are trusted',
      'process death, not power loss: a copy of the files is what kill -9 leaves (page cache survives)',
      'every crash point of the armed ops is enumerated; histories and which ops are armed are sampled',
  ]
  runs = {'quick': 480, 'thorough': 4000}
  budget_s = {'quick': 110, 'thorough': 1500}
  chunk = 4
  min_budget_runs = 60
  min_budget_s = 150
  probes = ['probe.hot-journal-image', 'probe.crash-between-commits-of-one-rpc', 'probe.pool-used',
            'probe.liveness-interrupted-worker', 'probe.liveness-fresh-worker', 'probe.liveness-create-study-retry', 'probe.second-crash',
            'probe.over-delivery', 'probe.early-stopping-record-changed']
  thorough_only_probes = ['probe.second-crash']

  def gen(self, rng, idx, tier):
    cfg = {
        'backend': 'sqlfile', 'algorithm': rng.choice(['GRID_SEARCH', 'SEQUENCE', 'SEQUENCE', 'QUASI_RANDOM_SEARCH']),
        'space': rng.choice(['int10', 'mixed']), 'metrics': 1, 'recycle_s': 60.0,
        'epoch': simclock.EPOCH + rng.randrange(10**6),
    }
    cfg['id_rot'] = rng.randrange(len(O.STUDY_IDS))  # which adversarial id the main study carries
    faults = []
    if rng.random() < 0.4:
      faults.append({'site': 'suggest', 'at': rng.randrange(1, 5), 'kind': rng.choice(['deliver:+1', 'deliver:+2'])})
    profile = {'n_studies': 2, 'n_owners': rng.choice([1, 1, 2]), 'workers': 3, 'p_direct': 0.0, 'md_missing': True}
    weights = {'SuggestTrials': 8, 'CreateTrial': 4, 'CompleteTrial': 5, 'AddTrialMeasurement': 2,
               'StopTrial': 2, 'DeleteTrial': 2, 'UpdateMetadata': 4, 'SetStudyState': 1, 'CreateStudy': 1,
               'DeleteStudy': 1, 'CheckES': 2, 'M:pool': 2}
    n = rng.randrange(3, 11 if tier == 'quick' else 16)
    ops = W.gen_ops(rng, n, profile, weights)
    for op in ops:
      if 'study' in op[1] and rng.random() < 0.85:
        op[1]['study'] = {'o': 0, 'd': 0}
      if op[0] == 'SetStudyState':
        op[1]['state'] = rng.choice(['ACTIVE', 'ACTIVE', 'INACTIVE'])
    armed = 'last3' if tier == 'quick' else rng.choice(['all', 'last3', 'all'])
    return {'cfg': cfg, 'faults': faults, 'entropy': rng.randrange(2**31), 'ops': ops, 'armed': armed,
            'second_crash': tier == 'thorough' and rng.random() < 0.3}

  def shrink_lists(self, plan):
    return ['ops', 'faults']

  def simplify(self, plan):
    if plan.get('armed') != 'last1':
      yield dict(plan, armed='last1')
    yield from W.simplify_ops(plan)

  # ------------------------------------------------------------------ run
  def run(self, plan):
    res = runner.Result()
    cfg = plan['cfg']
    base = '/dev/shm' if os.path.isdir('/dev/shm') else None
    root = tempfile.mkdtemp(prefix='verif-crash-', dir=base)
    clk = simclock.SimClock(epoch=cfg.get('epoch', simclock.EPOCH))
    ent = simclock.Entropy(plan.get('entropy', 0))
    polls = [0]
    try:
      with simclock.installed(clk, ent):
        real_sleep = vizier_client.time.sleep

        def counted_sleep(dt):
          polls[0] += 1
          if polls[0] > POLL_CAP:
            raise PollBudgetExceeded()
          real_sleep(dt)

        vizier_client.time.sleep = counted_sleep
        self._run(plan, res, root, clk, polls)
    finally:
      shutil.rmtree(root, ignore_errors=True)
    res.sim_s += clk.elapsed
    return res

  def _factory(self, plan):
    return P.FaultyFactory(P.base_factory(plan['cfg']), plan.get('faults', []))

  def _run(self, plan, res, root, clk, polls):
    cfg = plan['cfg']
    live_dir = os.path.join(root, 'live')
    os.mkdir(live_dir)
    img_root = os.path.join(root, 'images')
    os.mkdir(img_root)
    factory = self._factory(plan)
    world = O.World(cfg, backend='sqlfile', policy_factory=factory, dbdir=live_dir)
    rec = crash.CrashRecorder(crash.find_engine(world.sv.datastore), live_dir, img_root)
    n = len(plan['ops'])
    armed_from = {'all': 0, 'last3': max(0, n - 3), 'last1': max(0, n - 1)}[plan.get('armed', 'last3')]
    states = [state_of(world.sv)]
    es_states = [es_records(world.sv, states[0])]
    concrete = []
    last_worker = None
    try:
      for j, op in enumerate(plan['ops']):
        c = O.resolve(op, O.View(world.sv))
        concrete.append(c)
        armed = j >= armed_from or j == 0  # the first CreateStudy (new owner) is always armed
        if armed:
          rec.arm(j)
        out = O.outcome_norm(c['kind'], O.execute(world.sv, c, cfg))
        if armed:
          rec.mark('op-end')
        rec.disarm()
        states.append(state_of(world.sv))
        es_states.append(es_records(world.sv, states[-1]))
        if es_states[-1] != es_states[-2]:
          res.bump('probe.early-stopping-record-changed')
        res.log.append([O.jsonable(c), O.jsonable(out[:2])])
        res.bump('op.' + c['kind'])
        if c['kind'] == 'SuggestTrials' and out[0] == 'ok':
          pre = states[-2]['studies'].get(c['study'])
          if pre and isinstance(pre['trials'], dict):
            if any(t['id'] in pre['trials'] and pre['trials'][t['id']]['state'] == 'REQUESTED' for t in out[2]['trials']):
              res.bump('probe.pool-used')
            post = states[-1]['studies'].get(c['study'])
            if post and isinstance(post['trials'], dict) and any(
                i not in pre['trials'] and t['state'] == 'REQUESTED' for i, t in post['trials'].items()):
              res.bump('probe.over-delivery')
    finally:
      rec.detach()
      world.close()
    hist_hash = runner.digest_of([O.jsonable(c) for c in concrete])[:12]
    res.bump('crash.events', rec.events)
    res.bump('crash.distinct-images', len(rec.images))
    workers_by_op = {}
    w = None
    for j, c in enumerate(concrete):
      if c['kind'] == 'SuggestTrials':
        w = O.WORKERS[c['worker'] % len(O.WORKERS)]
      workers_by_op[j] = w
    for img in rec.images:
      j = img['op']
      c = concrete[j]
      kind = c['kind']
      writes = kind in ATOMIC or kind in MULTI
      res.evaluation((kind, img['seq'], img['journal'], hist_hash), writes)
      if img['journal']:
        res.bump('probe.hot-journal-image')
      commits_before = sum(1 for t in img['tags'][:1] if t)  # placeholder to keep tags referenced
      del commits_before
      viol = self._check_image(plan, res, img, j, c, states, workers_by_op.get(j), clk, polls, es_states=es_states)
      res.log.append(['image', j, img['seq'], img['tag'], img['journal'], [v[0] for v in viol]])
      if viol:
        seen = set()
        for clause, detail in viol:
          if clause not in seen:
            seen.add(clause)
            res.violate(clause, f'crash during op {j} ({kind}) at image {img["seq"]} [{img["tag"]}]: {detail}',
                        sig={'kind': kind}, step=j)
        break
    res.sample = {'cfg': cfg, 'ops': plan['ops'][:8], 'images': len(rec.images),
                  'image_tags': [(i['op'], i['tag'], i['journal']) for i in rec.images[:12]]}

  def _check_image(self, plan, res, img, j, c, states, int_worker, clk, polls, depth=0, es_states=None):
    cfg = plan['cfg']
    kind = c['kind']
    viol = []
    factory = self._factory(plan)
    factory.enabled = False
    w2 = O.World(cfg, backend='sqlfile', policy_factory=factory, dbdir=img['dir'])
    try:
      try:
        rec_state = state_of(w2.sv)
      except Exception as e:  # pylint: disable=broad-except
        return [('unreadable-after-restart', f'{type(e).__name__}: {e}')]
      for name, st in rec_state['studies'].items():
        if not isinstance(st['study'], dict) or not isinstance(st['trials'], dict):
          viol.append(('unreadable-after-restart', f'{name}: {st["study"] if not isinstance(st["study"], dict) else st["trials"]}'))
      for o, v in rec_state['owners'].items():
        if v[0] != 'ok' and v != ('err', 'NOT_FOUND'):
          viol.append(('unreadable-after-restart', f'owner o{o}: {v}'))
      if viol:
        return viol
      a, b = states[j], states[j + 1]
      if 'op-end' in img.get('tags', ()) and rec_state != b:
        # The call had returned (was acknowledged) when this image was taken.
        viol.append(('acknowledged-change-lost', 'image taken after the call returned: ' + self._diff(rec_state, b, b)))
      elif 'op-end' in img.get('tags', ()) and es_states is not None:
        got, want = es_records(w2.sv, rec_state), es_states[j + 1]
        if got != want:
          diff = sorted(k for k in set(got) | set(want) if got.get(k) != want.get(k))[:2]
          viol.append(('acknowledged-change-lost', 'image taken after the call returned: early-stopping record '
                       + '; '.join(f'{k}: restarted={got.get(k)} live={want.get(k)}' for k in diff)))
      elif rec_state != a and rec_state != b:
        if kind in ATOMIC:
          viol.append(('torn-single-resource-call', self._diff(rec_state, a, b)))
        else:
          if rec_state['owners'] != a['owners'] and rec_state['owners'] != b['owners']:
            viol.append(('torn-owner-listing', f'{rec_state["owners"]}'))
          for name, st in rec_state['studies'].items():
            sa = a['studies'].get(name)
            sb = b['studies'].get(name)
            if sa is None and sb is None:
              viol.append(('phantom-study', name))
              continue
            if st['study'] not in ([x['study'] for x in (sa, sb) if x]):
              viol.append(('torn-study', f'{name}: study record matches neither the old nor the new version'))
            ta = sa['trials'] if sa else {}
            tb = sb['trials'] if sb else {}
            for i, t in st['trials'].items():
              if t != ta.get(i) and t != tb.get(i):
                viol.append(('torn-trial', f'{name} trial {i} matches neither the old nor the new version'))
            for i in ta:
              if i not in st['trials'] and i in tb:
                viol.append(('acknowledged-trial-lost', f'{name} trial {i} missing after restart'))
          res.bump('probe.crash-between-commits-of-one-rpc')
      # (d) legal transitions relative to the last acknowledged state
      mon = M.Monitors()
      mon.prev = {'studies': a['studies'], 'owners': a['owners'], 'ops': {}}
      for clause, detail in mon.step({'kind': kind}, ('ok',), {'studies': rec_state['studies'], 'owners': rec_state['owners'], 'ops': {}}):
        viol.append(('lifecycle.' + clause, detail))
      if viol:
        return viol
      # (e) liveness once faults stop
      if kind == 'CreateStudy' and not c.get('empty'):
        r = O.outcome_norm('CreateStudy', O.execute(w2.sv, c, cfg))
        want = O.study_name(c['owner'], c['display'])
        listed = O.outcome_norm('ListStudies', O.execute(w2.sv, {'kind': 'ListStudies', 'owner': c['owner']}, cfg))
        if r[0] != 'ok':
          viol.append(('create-study-cannot-be-retried-after-restart', f'retry of the interrupted CreateStudy fails with {r[1]}'))
        elif listed[0] != 'ok' or want not in listed[2]:
          viol.append(('create-study-cannot-be-retried-after-restart', f'{want} not listed for its owner after the retry: {listed[:3]}'))
        res.bump('probe.liveness-create-study-retry')
      main = O.study_name(0, 0)
      st = rec_state['studies'].get(main)
      if st is not None and st['study']['state'] in O.MUTABLE_STUDY:
        workers = [('fresh', 'w-fresh')]
        if int_worker:
          workers.insert(0, ('interrupted', int_worker))
        for role, w in workers:
          polls[0] = 0
          client = vizier_client.VizierClient(main, w, w2.sv)
          try:
            trials = client.get_suggestions(1)
          except PollBudgetExceeded:
            viol.append(('wedged-after-restart', f'{role} worker {w}: suggest still polling after {POLL_CAP} polls'))
            continue
          except Exception as e:  # pylint: disable=broad-except
            viol.append(('suggest-fails-after-restart', f'{role} worker {w}: {type(e).__name__}: {str(e)[:150]}'))
            continue
          res.bump('probe.liveness-' + role + '-worker')
          if len(trials) != 1 or trials[0].status != vz.TrialStatus.ACTIVE:
            viol.append(('suggest-fails-after-restart', f'{role} worker {w}: got {[(t.id, str(t.status)) for t in trials]}'))
            continue
          try:
            done = client.complete_trial(trials[0].id, vz.Measurement({'m': 1.0}))
            if done.status != vz.TrialStatus.COMPLETED:
              viol.append(('complete-fails-after-restart', f'{role} worker {w}: trial {trials[0].id} is {done.status}'))
          except Exception as e:  # pylint: disable=broad-except
            viol.append(('complete-fails-after-restart', f'{role} worker {w}: {type(e).__name__}: {str(e)[:150]}'))
        # ids still unique and increasing after continuing
        post = state_of(w2.sv)['studies'].get(main)
        if post and isinstance(post['trials'], dict):
          ids = sorted(post['trials'])
          if len(set(ids)) != len(ids):
            viol.append(('duplicate-ids-after-restart', f'{ids}'))
      # second crash while continuing on the recovered image (thorough tier)
      if not viol and plan.get('second_crash') and depth == 0 and img['seq'] % 3 == 0:
        viol += self._second_crash(plan, res, w2, clk, polls)
    finally:
      w2.close()
    return viol

  def _second_crash(self, plan, res, w2, clk, polls):
    """Continue on the recovered server, capture crash points of one more suggest, check them."""
    cfg = plan['cfg']
    dbdir = w2.dbdir
    img_root = tempfile.mkdtemp(prefix='second-', dir=os.path.dirname(os.path.dirname(dbdir)))
    rec = crash.CrashRecorder(crash.find_engine(w2.sv.datastore), dbdir, img_root)
    main = O.study_name(0, 0)
    c = {'kind': 'SuggestTrials', 'study': main, 'n': 2, 'worker': 1}
    a = state_of(w2.sv)
    try:
      rec.arm(0)
      O.execute(w2.sv, c, cfg)
      rec.mark('op-end')
      rec.disarm()
    finally:
      rec.detach()
    b = state_of(w2.sv)
    viol = []
    for img in rec.images:
      res.bump('probe.second-crash')
      res.evaluation(('second', img['seq'], img['journal']), True)
      v = self._check_image(plan, res, img, 0, c, [a, b], O.WORKERS[1], clk, polls, depth=1)
      if v:
        viol += [(cl, 'second crash: ' + d) for cl, d in v]
        break
    shutil.rmtree(img_root, ignore_errors=True)
    return viol

  def _diff(self, rec_state, a, b):
    out = []
    for name in sorted(set(rec_state['studies']) | set(a['studies']) | set(b['studies'])):
      r, x, y = rec_state['studies'].get(name), a['studies'].get(name), b['studies'].get(name)
      if r != x and r != y:
        if r is None or x is None or y is None or not isinstance(r.get('trials'), dict):
          out.append(f'{name}: presence differs (recovered={r is not None} before={x is not None} after={y is not None})')
          continue
        if r['study'] != x['study'] and r['study'] != y['study']:
          out.append(f'{name}: study record is neither old nor new')
        for i in sorted(set(r['trials']) | set(x['trials']) | set(y['trials'])):
          if r['trials'].get(i) != x['trials'].get(i) and r['trials'].get(i) != y['trials'].get(i):
            out.append(f'{name} trial {i} is neither old nor new')
        if not out:
          out.append(f'{name}: mixes old and new versions of different records')
    if rec_state['owners'] != a['owners'] and rec_state['owners'] != b['owners']:
      out.append('owner listing is neither old nor new')
    da, db, dr = a.get('direct', {}), b.get('direct', {}), rec_state.get('direct', {})
    for name in sorted(dr):
      if dr[name] != da.get(name) and dr[name] != db.get(name):
        out.append(f'{name} addressed directly is neither old nor new')
      elif not out and (dr[name] == db.get(name)) != (rec_state['owners'] == b['owners']) and da.get(name) != db.get(name):
        out.append(f'{name} is {"present" if isinstance(dr[name], dict) else "absent"} when addressed directly but its owner listing says otherwise')
    return '; '.join(out[:4]) or 'recovered state equals neither S(j-1) nor S(j)'


CHECK = C05()
