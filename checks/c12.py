"""C12 - algorithms get each completed trial exactly once, and all active trials (DESIGN §3 C12)."""
import contextlib
import copy

from simkit import clock as simclock
from simkit import ops as O
from simkit import policies as P
from simkit import runner
from simkit import workload as W

from vizier import pythia
from vizier._src.algorithms.policies import designer_policy as dp
from vizier._src.service import vizier_service_pb2 as vs
from vizier.service import pyvizier as vz

DESIGNER_NS = ':designer_policy_v0:designer'
CACHE_NS = ':designer_policy_v0:cache'


class Ledger:
  """Exactly-once delivery ledger; a trial = (id, incarnation)."""

  def __init__(self, mode):
    self.mode = mode  # 'serializable' | 'rebuild'
    self.inc = {}
    self.present = set()
    self.delivered = set()
    self.lineages = 0
    self.updates = 0
    self.nonempty_updates = 0
    self.sizes = []
    self.last_cause = 'other'
    # A new lineage (fresh algorithm instance in a state-persisting mode) is legitimate for the first
    # update of a study and after an injected loss / corruption of the persisted state - not otherwise.
    self.allow_fresh = True
    self.any_deleted = False

  def observe(self, ids_now):
    ids_now = set(ids_now)
    if self.present - ids_now:
      self.any_deleted = True
    for i in ids_now - self.present:
      self.inc[i] = self.inc.get(i, 0) + 1
    self.present = ids_now

  def reused_ids(self):
    return [i for i, n in self.inc.items() if n > 1]

  def on_update(self, ev, status_now, content_now=None):
    """status_now: id -> 'ACTIVE' | 'COMPLETED' | other, at the moment of update()."""
    v = []
    for i, got_c in (ev.get('completed_content') or {}).items():
      want_c = (content_now or {}).get(i)
      if want_c is not None and got_c is not None and got_c != want_c:
        v.append(('delivered-trial-content-stale',
                  f'trial {i} was given to the algorithm as {str(got_c)[:120]} but the study holds {str(want_c)[:120]}'))
        break
    self.updates += 1
    completed_now = {i for i, s in status_now.items() if s == 'COMPLETED'}
    active_now = {i for i, s in status_now.items() if s == 'ACTIVE'}
    got_ids = list(ev['completed'])
    order = list(ev.get('completed_order') or got_ids)
    if order != sorted(order) and not self.reused_ids() and not self.any_deleted:
      # PolicySupporter.GetTrials documents "in order of increasing Trial ID"; order-sensitive algorithms
      # (eagle, NSGA-II, CMA-ES) end up in another state otherwise. Checked only while no id was deleted.
      v.append(('completed-trials-not-in-id-order', f'update() received completed trials in the order {order}'))
    if len(set(got_ids)) != len(got_ids):
      v.append(('completed-trial-delivered-twice', f'update() received duplicates: {got_ids}'))
    got = {(i, self.inc.get(i, 1)) for i in got_ids}
    if getattr(self, 'expect_fresh', False):
      self.expect_fresh = False
      if not ev['fresh']:
        v.append(('state-of-deleted-study-reused', 'the first update() of a re-created study went to an algorithm instance that had been updated or restored before'))
    if ev['fresh'] and self.mode != 'rebuild' and not self.allow_fresh:
      v.append(('algorithm-state-discarded',
                f'update() #{self.updates} went to a fresh algorithm instance although state had been persisted and none was lost (completed given: {got_ids})'))
    self.allow_fresh = False
    if self.mode == 'rebuild' or ev['fresh']:
      if ev['fresh'] and self.mode != 'rebuild':
        self.lineages += 1
      self.delivered = set()
    expected = {(i, self.inc.get(i, 1)) for i in completed_now} - self.delivered
    missing = sorted(expected - got)
    extra = sorted(got - expected)
    if missing:
      # Narrow cause classification for the known-findings file: every missing
      # trial re-uses the id of a trial that was delivered earlier in this lineage.
      self.last_cause = ('id-reused-after-delete'
                         if all(n > 1 and any((i, m) in self.delivered for m in range(1, n)) for i, n in missing)
                         else 'other')
      v.append(('completed-trial-not-delivered',
                f'update() lacks completed trials {[i for i, _ in missing]} (delivered {sorted(got_ids)}, completed now {sorted(completed_now)}, fresh={ev["fresh"]})'))
    for i, n in extra:
      if i not in completed_now:
        v.append(('non-completed-trial-delivered-as-completed', f'trial {i} is {status_now.get(i)}'))
      else:
        v.append(('completed-trial-delivered-twice', f'trial {i} was already delivered in this lineage'))
    if sorted(ev['active']) != sorted(active_now):
      v.append(('active-set-wrong', f'update() active={sorted(ev["active"])} but ACTIVE now={sorted(active_now)}'))
    self.delivered |= got
    if missing and self.last_cause == 'id-reused-after-delete':
      # recorded once; treat as delivered so that the rest of the history is still checked
      self.delivered |= set(missing)
    if got_ids:
      self.nonempty_updates += 1
    self.sizes.append((len(got_ids), len(ev['active'])))
    return v


def pv_status(t):
  if t.status == vz.TrialStatus.COMPLETED:
    return 'COMPLETED'
  if t.status == vz.TrialStatus.ACTIVE:
    return 'ACTIVE'
  return str(t.status)


class C12(runner.Check):
  prop = 'C12'
  level = 'exploration'
  engine = 'svc'
  rule = ('one evaluation = one generated history in one hosting mode: a recording designer behind the real '
          'PartiallySerializableDesignerPolicy hosted by the real service (policy rebuilt per request, state '
          'through study metadata -> proto -> RAM/SQLite datastore, with clean server restarts and injected '
          'loss / corruption of the persisted state), behind DesignerPolicy (fresh designer per request), or '
          'behind InRamPolicySupporter with the policy object kept alive or rebuilt, or the real grid / '
          'quasi-random / eagle designers behind the DefaultPolicyFactory (observed at Designer.update()); workload = suggests of '
          'any batch size by several workers, out-of-order feasible/infeasible completions, externally '
          'added completed trials, requests, deletions (incl. the highest id), delete-and-re-create of the '
          'study; oracle = delivery ledger '
          'evaluated inside every Designer.update(); distinct = hash of (mode, sequence of delivered-set '
          'sizes, restart / state-loss positions); non-trivial iff >=2 updates with a non-empty completed set '
          'and >=1 restart, state loss or deletion')
  assumptions = [
      'a trial is identified by (id, creation event): a re-used id is a different trial',
      'loss or corruption of the persisted policy state starts a new lineage by design (everything is delivered again)',
  ]
  runs = {'quick': 3200, 'thorough': 40000}
  budget_s = {'quick': 100, 'thorough': 1200}
  chunk = 40
  probes = ['probe.update-with-completed', 'probe.restored-from-metadata', 'probe.state-lost-new-lineage',
            'probe.deletion', 'probe.external-completed-trial', 'probe.infeasible-completion',
            'restart.clean', 'probe.stopping-trial-present', 'probe.mode.service-serializable', 'probe.mode.service-rebuild',
            'probe.mode.inram-alive', 'probe.mode.inram-rebuilt', 'probe.id-reused-after-delete',
            'probe.mode.service-default', 'probe.study-recreated', 'probe.mode.inram-designerpolicy',
            'probe.completion-missing-an-objective', 'probe.long-study-with-straggler']

  def gen(self, rng, idx, tier):
    mode = rng.choice(['service-serializable'] * 4 + ['service-default'] * 2 + ['service-rebuild', 'inram-alive', 'inram-rebuilt', 'inram-designerpolicy'])
    cfg = {'mode': mode, 'backend': rng.choice(['ram', 'ram', 'sqlmem', 'sqlfile']), 'algorithm': 'RECORDING',
           'space': 'int10', 'epoch': simclock.EPOCH + rng.randrange(10**6)}
    cfg['id_rot'] = rng.randrange(len(O.STUDY_IDS))  # which adversarial id the main study carries
    if mode != 'service-default':
      # the recording designer does not read metrics: two objectives, and completions that report only
      # one of them (feasible or infeasible) - a completed trial is a completed trial
      cfg['metrics'] = rng.choice([1, 1, 2])
    if mode == 'service-default':
      # the production path: DefaultPolicyFactory and the real designers, observed at Designer.update()
      cfg['algorithm'] = rng.choice(['GRID_SEARCH', 'GRID_SEARCH', 'QUASI_RANDOM_SEARCH', 'EAGLE_STRATEGY'])
      cfg['space'] = rng.choice(['int10', 'mixed'])
    ss = {'o': 0, 'd': 0}
    ops = [['CreateStudy', {'o': 0, 'd': 0, 'state': 'ACTIVE'}]]
    n = rng.randrange(5, 25 if tier == 'quick' else 45)
    kinds = (['SuggestTrials'] * 7 + ['CompleteTrial'] * 7 + ['CreateTrial'] * 2 + ['DeleteTrial'] * 2
             + ['Reopen', 'CorruptState', 'M:reuse', 'StopTrial', 'StopTrial'])
    if rng.random() < 0.5:
      kinds = [k for k in kinds if k not in ('DeleteTrial', 'M:reuse')]  # swarm: deletion-free runs
    if mode.startswith('service') and rng.random() < 0.3:
      kinds = kinds + ['RecreateStudy']  # the study is deleted and a study of the same name is created
    while len(ops) < n:
      k = rng.choice(kinds)
      if k == 'SuggestTrials':
        ops.append([k, {'study': ss, 'n': rng.choice([1, 1, 2, 3, 4]), 'worker': rng.randrange(3)}])
      elif k == 'CompleteTrial':
        ops.append([k, {'study': ss, 'trial': {'pref': rng.choice(['active', 'active', 'mutable', 'stopping']), 'i': rng.randrange(8)},
                        'ckind': rng.choice(['final', 'final', 'final', 'infeasible'] + (
                            ['partial-final', 'infeasible+final', 'partial-final+infeasible'] if cfg.get('metrics') == 2 else [])),
                        'v': rng.randrange(5), 'reason': rng.choice(['bad', ''])}])
      elif k == 'CreateTrial':
        ops.append([k, {'study': ss, 'x': rng.randrange(40), 'tkind': rng.choice(['succeeded', 'succeeded', 'plain'])}])
      elif k == 'DeleteTrial':
        ops.append([k, {'study': ss, 'trial': {'pref': rng.choice(['any', 'max', 'completed', 'active']), 'i': rng.randrange(8)}}])
      elif k == 'M:reuse':
        ops += [['SuggestTrials', {'study': ss, 'n': 1, 'worker': 0}],
                ['CompleteTrial', {'study': ss, 'trial': {'pref': 'max', 'i': 0}, 'ckind': 'final', 'v': 1}],
                ['SuggestTrials', {'study': ss, 'n': 2, 'worker': 1}],
                ['DeleteTrial', {'study': ss, 'trial': {'pref': 'max', 'i': 0}}],
                ['DeleteTrial', {'study': ss, 'trial': {'pref': 'max', 'i': 0}}],
                ['DeleteTrial', {'study': ss, 'trial': {'pref': 'max', 'i': 0}}],
                ['SuggestTrials', {'study': ss, 'n': 1, 'worker': 2}],
                ['CompleteTrial', {'study': ss, 'trial': {'pref': 'max', 'i': 0}, 'ckind': 'final', 'v': 2}]]
      elif k == 'StopTrial':
        ops.append([k, {'study': ss, 'trial': {'pref': 'active', 'i': rng.randrange(8)}}])
      elif k == 'CorruptState':
        ops.append([k, {'what': rng.choice(['designer', 'cache'])}])
      else:
        ops.append([k, {}])
    ops.append(['SuggestTrials', {'study': ss, 'n': 7, 'worker': 3}])
    if rng.random() < (0.02 if tier == 'quick' else 0.04) and mode != 'service-default':
      # a long study with a straggler: one early trial stays ACTIVE while another worker suggests and
      # completes 115 more (id windows, pages and low-water marks only show beyond 50 / 100 trials)
      ops = [['CreateStudy', {'o': 0, 'd': 0, 'state': 'ACTIVE'}],
             ['SuggestTrials', {'study': ss, 'n': rng.choice([1, 2]), 'worker': 0}]]
      for _ in range(115):
        ops.append(['SuggestTrials', {'study': ss, 'n': 1, 'worker': 1}])
        ops.append(['CompleteTrial', {'study': ss, 'trial': {'pref': 'max', 'i': 0}, 'ckind': 'final', 'v': 1, 'reason': 'bad'}])
      ops.append(['CompleteTrial', {'study': ss, 'trial': {'pref': 'active', 'i': 0}, 'ckind': 'final', 'v': 2, 'reason': 'bad'}])
      ops.append(['SuggestTrials', {'study': ss, 'n': 1, 'worker': 1}])
      cfg['marathon'] = True
    return {'cfg': cfg, 'entropy': rng.randrange(2**31), 'ops': ops}

  def simplify(self, plan):
    if plan['cfg'].get('backend') != 'ram':
      yield dict(plan, cfg=dict(plan['cfg'], backend='ram'))
    yield from W.simplify_ops(plan)

  def run(self, plan):
    res = runner.Result()
    cfg = plan['cfg']
    clk = simclock.SimClock(epoch=cfg.get('epoch', simclock.EPOCH))
    ent = simclock.Entropy(plan.get('entropy', 0))
    with simclock.installed(clk, ent):
      if cfg['mode'].startswith('service'):
        self._run_service(plan, res)
      else:
        self._run_inram(plan, res)
    res.sim_s += clk.elapsed
    res.bump('probe.mode.' + cfg['mode'])
    if cfg.get('marathon'):
      res.bump('probe.long-study-with-straggler')
    return res

  # ------------------------------------------------------------- service
  def _run_service(self, plan, res):
    cfg = plan['cfg']
    mode = 'rebuild' if cfg['mode'] == 'service-rebuild' else 'serializable'
    ledger = Ledger(mode)
    log = []
    P.RecordingDesigner.LOG = log
    P.RecordingDesigner.SPACE = cfg.get('space', 'int10')
    default_factory = cfg['mode'] == 'service-default'
    patches = P.recording_real_designers() if default_factory else contextlib.nullcontext()
    patches.__enter__()
    world = O.World(cfg, backend=cfg['backend'], policy_factory=None if default_factory else P.RecordingFactory(mode))
    main = O.study_name(0, 0)
    marks = []
    viol = []

    class Hook(list):
      """LOG list whose append evaluates update() events at that very moment."""

      def append(self_inner, ev):  # pylint: disable=no-self-argument
        list.append(self_inner, ev)
        if ev.get('event') != 'update':
          return
        r = O.call(world.sv.ListTrials, vs.ListTrialsRequest(parent=main))
        status = {}
        content = {}
        if r[0] == 'ok':
          for t in r[1].trials:
            s = O.TS.get(t.state)
            status[int(t.id)] = 'COMPLETED' if s in ('SUCCEEDED', 'INFEASIBLE') else s
            if status[int(t.id)] == 'COMPLETED':
              try:
                content[int(t.id)] = P.content_of(vz.TrialConverter.from_proto(t))
              except Exception:  # pylint: disable=broad-except
                pass
        viol.extend(ledger.on_update(ev, status, content))
        if ev['completed']:
          res.bump('probe.update-with-completed')
        if not ev['fresh']:
          res.bump('probe.restored-from-metadata')
        if 'STOPPING' in status.values():
          res.bump('probe.stopping-trial-present')

    hook = Hook()
    P.RecordingDesigner.LOG = hook
    corrupted = False
    try:
      for step, op in enumerate(plan['ops']):
        kind = op[0]
        sv = world.sv
        if kind == 'Reopen':
          if world.reopen():
            res.bump('restart.clean')
            marks.append(('reopen', step))
          continue
        if kind == 'RecreateStudy':
          # A new study under the old name: nothing of the dead study may reach it, so the
          # ledger starts empty and its first update must come from a fresh designer.
          r1 = O.call(sv.DeleteStudy, vs.DeleteStudyRequest(name=main))
          r2 = O.execute(sv, {'kind': 'CreateStudy', 'owner': 0, 'display': 0, 'state': 'ACTIVE'}, cfg)
          if r1[0] == 'ok' and r2[0] == 'ok':
            carried = (ledger.updates, ledger.nonempty_updates, ledger.sizes)
            ledger.__init__(mode)
            ledger.updates, ledger.nonempty_updates, ledger.sizes = carried
            ledger.expect_fresh = True
            res.bump('probe.study-recreated')
            marks.append(('recreate', step))
          continue
        if kind == 'CorruptState':
          if mode != 'serializable' or default_factory:
            continue
          req = vs.UpdateMetadataRequest(name=main)
          u = req.delta.add()
          if op[1]['what'] == 'designer':
            u.metadatum.ns, u.metadatum.key, u.metadatum.value = DESIGNER_NS, 'n', 'garbage'
          else:
            u.metadatum.ns, u.metadatum.key, u.metadatum.value = CACHE_NS, 'incorporated_completed_trials_ids', '{not json'
          r = O.call(sv.UpdateMetadata, req)
          if r[0] == 'ok':
            corrupted = True
            ledger.allow_fresh = True
            marks.append(('state-lost', step))
          continue
        c = O.resolve(op, O.View(sv))
        n_updates = ledger.updates
        lineages0 = ledger.lineages
        out = O.outcome_norm(kind, O.execute(sv, c, cfg))
        res.bump('op.' + kind)
        res.log.append([O.jsonable(c), O.jsonable(out[:2]), [e for e in hook[-3:] if e.get('event') == 'update']])
        if ledger.updates > n_updates and corrupted and ledger.lineages > lineages0:
          res.bump('probe.state-lost-new-lineage')
          corrupted = False
        snap = O.snapshot(world.sv, include_ops=False)
        st = snap['studies'].get(main)
        if st and isinstance(st['trials'], dict):
          ledger.observe(st['trials'].keys())
        if kind == 'DeleteTrial' and out[0] == 'ok':
          res.bump('probe.deletion')
          marks.append(('delete', step))
        if kind == 'CreateTrial' and out[0] == 'ok' and c.get('tkind') == 'succeeded':
          res.bump('probe.external-completed-trial')
        if kind == 'CompleteTrial' and out[0] == 'ok' and 'infeasible' in c.get('ckind', ''):
          res.bump('probe.infeasible-completion')
        if kind == 'CompleteTrial' and out[0] == 'ok' and c.get('ckind', '').startswith('partial'):
          res.bump('probe.completion-missing-an-objective')
        if kind == 'SuggestTrials' and out[0] == 'ok' and out[2]['error']:
          viol.append(('suggest-failed', f'operation error: {out[2]["error"]}'))
        if viol:
          seen = set(v['clause'] + str(v['sig']) for v in res.violations)
          stop = False
          for clause, detail in viol:
            # 'service-default' is the same hosting mode (policy rebuilt per request, state through study
            # metadata) with the production factory instead of the recording one
            sig = {'mode': 'service-serializable' if default_factory else cfg['mode'],
                   'factory': 'default' if default_factory else 'recording',
                   'cause': ledger.last_cause if clause == 'completed-trial-not-delivered' else 'n/a'}
            if sig['cause'] != 'id-reused-after-delete':
              stop = True
            if clause + str(sig) not in seen:
              seen.add(clause + str(sig))
              res.violate(clause, f'step {step} {kind} ({cfg["mode"]}, {cfg["backend"]}): {detail}', sig=sig, step=step)
          del viol[:]
          if stop:
            break
      if ledger.reused_ids():
        res.bump('probe.id-reused-after-delete')
    finally:
      world.destroy()
      patches.__exit__(None, None, None)
      P.RecordingDesigner.LOG = None
    res.evaluation((cfg['mode'], tuple(ledger.sizes), tuple(m[0] for m in marks)),
                   ledger.nonempty_updates >= 2 and bool(marks))
    res.sample = {'cfg': cfg, 'ops': plan['ops'][:10], 'update_sizes': ledger.sizes[:12]}

  # --------------------------------------------------------------- in-RAM
  def _run_inram(self, plan, res):
    cfg = plan['cfg']
    # 'inram-designerpolicy': one DesignerPolicy object kept alive (PolicySuggester / benchmark style):
    # a fresh designer per request, which must be given the complete current set every time
    ledger = Ledger('rebuild' if cfg['mode'] == 'inram-designerpolicy' else 'serializable')
    P.RecordingDesigner.SPACE = cfg.get('space', 'int10')
    problem = O.study_config(cfg).to_problem()
    supporter = pythia.InRamPolicySupporter(problem)
    viol = []
    marks = []

    class Hook(list):

      def append(self_inner, ev):  # pylint: disable=no-self-argument
        list.append(self_inner, ev)
        if ev.get('event') != 'update':
          return
        status = {t.id: pv_status(t) for t in supporter.trials}
        content = {t.id: P.content_of(t) for t in supporter.trials if pv_status(t) == 'COMPLETED'}
        viol.extend(ledger.on_update(ev, status, content))
        if ev['completed']:
          res.bump('probe.update-with-completed')
        if not ev['fresh']:
          res.bump('probe.restored-from-metadata')

    hook = Hook()
    P.RecordingDesigner.LOG = hook

    def new_policy():
      if cfg['mode'] == 'inram-designerpolicy':
        return dp.DesignerPolicy(supporter, P.RecordingDesigner, use_seeding=False)
      return dp.PartiallySerializableDesignerPolicy(supporter.study_config, supporter, P.RecordingDesigner)

    policy = new_policy()
    try:
      for step, op in enumerate(plan['ops']):
        kind = op[0]
        if kind in ('CreateStudy', 'DeleteTrial', 'StopTrial', 'RecreateStudy'):
          continue
        if kind == 'Reopen':
          # "server restart" for the in-RAM host = the policy object is rebuilt;
          # its state must come back from the study metadata.
          policy = new_policy()
          res.bump('restart.clean')
          marks.append(('rebuild', step))
          continue
        if kind == 'CorruptState':
          ns = supporter.study_config.metadata.ns('designer_policy_v0')
          if op[1]['what'] == 'designer':
            ns.ns('designer')['n'] = 'garbage'
          else:
            ns.ns('cache')['incorporated_completed_trials_ids'] = '{not json'
          policy = new_policy()
          ledger.allow_fresh = True
          marks.append(('state-lost', step))
          res.bump('probe.state-lost-new-lineage')
          continue
        if cfg['mode'] == 'inram-rebuilt' and kind == 'SuggestTrials':
          policy = new_policy()
          marks.append(('rebuild', step))
        if kind == 'SuggestTrials':
          supporter.SuggestTrials(policy, op[1]['n'])
        elif kind == 'CompleteTrial':
          act = [t for t in supporter.trials if t.status == vz.TrialStatus.ACTIVE]
          if act:
            t = act[op[1]['trial'].get('i', 0) % len(act)]
            ck = op[1].get('ckind', '')
            vals = {'m': float(op[1].get('v', 0))}
            if cfg.get('metrics') == 2 and not ck.startswith('partial'):
              vals['n'] = 1.0
            if 'infeasible' in ck:
              t.complete(vz.Measurement(vals if 'final' in ck else {}), infeasibility_reason='bad')
              res.bump('probe.infeasible-completion')
            else:
              t.complete(vz.Measurement(vals))
            if ck.startswith('partial'):
              res.bump('probe.completion-missing-an-objective')
        elif kind == 'CreateTrial':
          t = vz.Trial(parameters=O.param_values(cfg.get('space', 'int10'), op[1]['x']))
          if op[1].get('tkind') == 'succeeded':
            t.complete(vz.Measurement({'m': 1.0}))
            res.bump('probe.external-completed-trial')
          supporter.AddTrials([t])
        res.bump('op.' + kind)
        res.log.append([kind, O.jsonable(op[1]), copy.deepcopy([e for e in hook[-2:] if e.get('event') == 'update'])])
        ledger.observe([t.id for t in supporter.trials])
        if viol:
          seen = set()
          for clause, detail in viol:
            if clause not in seen:
              seen.add(clause)
              res.violate(clause, f'step {step} {kind} ({cfg["mode"]}): {detail}',
                          sig={'mode': cfg['mode'], 'cause': ledger.last_cause if clause == 'completed-trial-not-delivered' else 'n/a'}, step=step)
          break
    finally:
      P.RecordingDesigner.LOG = None
    res.evaluation((cfg['mode'], tuple(ledger.sizes), tuple(m[0] for m in marks)),
                   ledger.nonempty_updates >= 2 and bool(marks))
    res.sample = {'cfg': cfg, 'ops': plan['ops'][:10], 'update_sizes': ledger.sizes[:12]}


CHECK = C12()
