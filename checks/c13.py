"""C13 - a restarted stateful algorithm continues like one that never stopped (DESIGN §3 C13)."""
import itertools

from simkit import clock as simclock
from simkit import ops as O
from simkit import runner
from simkit import twin

from vizier import pythia
from vizier import pyvizier as vz
from vizier._src.algorithms.policies import designer_policy as dp
from vizier._src.service import vizier_service_pb2 as vs

SERVICE_ALGOS = {'grid': 'GRID_SEARCH', 'sgrid': 'SHUFFLED_GRID_SEARCH', 'quasi': 'QUASI_RANDOM_SEARCH',
                 'eagle': 'EAGLE_STRATEGY', 'nsga2': 'NSGA2', 'cmaes': 'CMA_ES'}
SERVICE_SPACE = {'int10': 'int10', 'mixed': 'mixed', 'f2': 'f2', 'small': None, 'f3log': None, 'cat2': None, 'sibA': None, 'sibB': None}


def child_main(path):
  """Another server process: restores a designer from a dump made elsewhere and makes one suggestion batch."""
  import json  # pylint: disable=g-import-not-at-top
  doc = json.load(open(path))
  prob = twin.problem(doc['space'], doc.get('metrics', 1))
  clk = simclock.SimClock(epoch=doc['epoch'])
  with simclock.installed(clk, simclock.Entropy(doc['seed'])):
    d = twin.make(doc['designer'], prob, doc['seed'] + 1000)
    md = vz.Metadata()
    for ns, k, v in doc['md']:
      md.abs_ns(vz.Namespace(tuple(ns)))[k] = v
    d.load(md)
    out = [repr(twin.pkey(s)) for s in d.suggest(doc['count'])]
  print('C13CHILD ' + json.dumps(out))
  return 0


def _restart_in_another_process(plan, md, count, step):
  import json, os, subprocess, sys, tempfile  # pylint: disable=g-import-not-at-top,multiple-imports
  from simkit import boot  # pylint: disable=g-import-not-at-top
  items = [[list(ns), k, v] for ns, k, v in md.all_items() if isinstance(v, str)]
  fd, path = tempfile.mkstemp(prefix='c13-', suffix='.json')
  try:
    with os.fdopen(fd, 'w') as f:
      json.dump({'designer': plan['designer'], 'space': plan['space'], 'metrics': plan.get('metrics', 1),
                 'seed': plan['seed'], 'epoch': plan['epoch'] + 1000.0 * step, 'md': items, 'count': count}, f)
    env = dict(os.environ)
    env.pop('_VERIF_PINNED', None)
    env['VERIF_HASHSEED'] = str(plan.get('hashseed', 4242))
    p = subprocess.run([sys.executable, os.path.join(boot.VERIF_ROOT, 'vcheck'), 'c13-child', path],
                       capture_output=True, text=True, env=env, timeout=300)
    for line in p.stdout.splitlines():
      if line.startswith('C13CHILD '):
        return json.loads(line[len('C13CHILD '):])
    return None
  finally:
    os.unlink(path)


class C13(runner.Check):
  prop = 'C13'
  level = 'fault_enumeration'
  engine = 'twin'
  rule = ('one evaluation = one (designer, problem, seed, batch-size sequence, restart subset, depth): run A '
          'keeps one live instance; run B is restarted (dump -> fresh instance built with a different seed -> '
          'load) after the given subset of steps - directly on the designer, through '
          'PartiallySerializableDesignerPolicy + InRamPolicySupporter metadata, or through the real service '
          '(RAM without restarts vs SQLite file with server restarts, one simulated clock schedule); both are '
          'fed the same deterministic completions (with infeasible trials mixed in, in suggestion order or not, '
          'some left pending so that a suggest incorporates nothing new); grid / shuffled grid / '
          'quasi-random / eagle must emit identical suggestions, NSGA-II and CMA-ES identical population, '
          'phase and counters (dump + mutation-phase seam); service-hosted grid search must visit every grid '
          'point exactly once; restart subsets are enumerated exhaustively for histories of <=6 steps, '
          'sampled beyond; distinct = hash of (designer, depth, restart bitmap, batch sizes); non-trivial iff '
          '>=1 restart after the state left its initial value')
  assumptions = [
      'NSGA-II / CMA-ES dumps do not carry their RNG, so only population, phase and counters are compared for them',
      'the NSGA-II phase is observed through an injected counting Mutation (constructor argument)',
      'GP designers are not exercised (equinox cannot be imported in this sandbox)',
  ]
  runs = {'quick': 1400, 'thorough': 12000}
  budget_s = {'quick': 110, 'thorough': 1500}
  chunk = 10
  probes = ['probe.restart-after-state-changed', 'probe.nsga2-left-sampling-phase', 'probe.eagle-pool-full',
            'probe.cmaes-generation-boundary', 'probe.infeasible-trial-fed', 'probe.depth.direct',
            'probe.depth.policy', 'probe.depth.service', 'probe.grid-fully-covered', 'probe.exhaustive-subsets', 'probe.out-of-order-completions',
            'probe.suggest-without-new-completions', 'probe.update-refused-by-both',
            'probe.prior-life-of-the-study-name', 'probe.infinite-objective-fed', 'probe.nsga2-offspring-lineage-compared', 'probe.eagle-pool-shrank-after-being-full', 'fault.designer-restart-in-another-process']

  def gen(self, rng, idx, tier):
    depth = rng.choice(['direct'] * 5 + ['policy'] * 3 + ['service'] * 2)
    names = ['grid', 'sgrid', 'quasi', 'quasi', 'eagle', 'eagle', 'nsga2', 'nsga2']
    if rng.random() < (0.05 if tier == 'quick' else 0.08):
      names = ['cmaes']
      depth = rng.choice(['direct', 'policy'])
    if depth == 'service':
      names = ['grid', 'sgrid', 'sgrid', 'quasi', 'eagle']
    name = rng.choice(names)
    spaces = twin.SPACES[name]
    if depth == 'service':
      spaces = [s for s in spaces if SERVICE_SPACE.get(s)]
    space = rng.choice(spaces)
    n = rng.choice([3, 4, 5, 6, 6, 8, 10, 14])
    if name == 'cmaes':
      n = rng.choice([4, 6, 8])
    if depth == 'service':
      n = rng.choice([3, 4, 5, 6, 8])
    batches = [rng.choice([1, 1, 2, 3, 3, 5, 7]) for _ in range(n)]
    if name == 'cmaes':
      batches = [rng.choice([1, 2, 3, 4]) for _ in range(n)]
    if n <= 6 and (tier == 'thorough' or rng.random() < 0.15) and depth != 'service':
      sets = [[i for i in range(n) if mask >> i & 1] for mask in range(1, 2 ** n)]
      exhaustive = True
    else:
      exhaustive = False
      sets = [list(range(n)), [i for i in range(n) if i % 3 == 2]]
      for _ in range(2 if depth != 'service' else 1):
        sets.append(sorted(rng.sample(range(n), rng.randrange(1, n))))
      if depth == 'service':
        sets = sets[:1] + sets[2:]
    seed = rng.randrange(1, 10**6) if rng.random() < 0.85 else rng.choice([0, 0, 1, 2**31 - 1])
    if name in ('quasi', 'sgrid', 'eagle') and rng.random() < 0.1:
      seed = rng.choice([2**32 - 1, 2**32 + 3, 2**40 + 1, 1759400000123456789])  # e.g. time_ns(), 64-bit hashes
    marathon = rng.random() < (0.012 if tier == 'quick' else 0.03)
    if marathon:
      # a long study: phases that only come late (eagle removes exhausted flies from a full pool and
      # refills it from its initial designer after ~650 trials), with one restart while the pool is full
      if rng.random() < 0.6:
        name, space, depth = 'eagle', 'f2', 'direct'
        batches = [5] * 140
        # one restart while the pool is full, and one late (after ~520 trials a fly's perturbation has decayed
        # below its lower bound without the fly being removable)
        sets = [[rng.randrange(10, 60)], sorted(rng.sample(range(10, 100), 2)) + [rng.randrange(106, 136)]]
      else:
        # NSGA-II with hundreds of updates: members that survive > 255 survival steps
        name, space, depth = 'nsga2', 'f2', 'direct'
        batches = [1] * 330
        sets = [[rng.randrange(270, 320)]]
      n = len(batches)
      exhaustive = False
    if name not in ('quasi', 'sgrid', 'eagle') and seed >= 2**32:
      seed %= 2**31  # (numpy RandomState-based designers only take 32-bit seeds)
    return {'designer': name, 'space': space, 'seed': seed, 'depth': depth,
            'marathon': marathon,
            # a sample of direct-depth plans also restores the dump in ANOTHER interpreter (other hash seed):
            # what a real server restart is
            'xproc': (depth == 'direct' and name in twin.DETERMINISTIC_DUMP and not marathon
                      and rng.random() < (0.025 if tier == 'quick' else 0.08)),
            'hashseed': rng.choice([1, 9, 4242, 123456]),
            'order': 'in-order' if marathon else rng.choice(['in-order', 'in-order', 'reversed', 'shuffled', 'shuffled', 'delayed']),
            'order_seed': rng.randrange(10**6),
            # per step: 0 = every trial of the step is completed before the next suggest, 1 = one is left
            # pending, 2 = all are left pending (the next suggest incorporates nothing new); pending trials
            # are completed at the next step that is not 2
            'hold': [rng.choice([0, 0, 0, 0, 1, 2, 2]) for _ in range(n)] if (rng.random() < 0.4 and not marathon) else [0] * n,
            'batches': batches, 'restart_sets': sets, 'exhaustive': exhaustive,
            # NSGA-II refuses infeasible trials on this tree (KeyError): then both twins must refuse alike
            'infeasible_mod': rng.choice([0, 0, 4, 5]) if name != 'nsga2' else (rng.choice([0, 0, 0, 5, 7]) if depth == 'direct' else 0),
            'metrics': 2 if (name == 'nsga2' and rng.random() < 0.5) else 1,
            # a diverged evaluation reports +inf / -inf (legal floats): every k-th trial, direct depth, designers
            # that keep objective values in their persisted state
            'inf_mod': rng.choice([0, 0, 3, 4]) if (name in ('nsga2', 'cmaes') and depth == 'direct') else 0,
            # service depth, restarted run only: a study of the same name lived (this many suggest+complete
            # rounds) and was deleted before; a new study must not inherit anything from it
            'prior_life': rng.choice([0, 0, 1, 2, 3]) if depth == 'service' else 0,
            'advance': [rng.choice([0.0, 0.0, 3.0, 100.0]) for _ in range(n)],
            'epoch': simclock.EPOCH + rng.randrange(10**6)}

  def shrink_lists(self, plan):
    return ['restart_sets']

  def simplify(self, plan):
    # fewer steps, then fewer restarts inside the remaining set
    n = len(plan['batches'])
    if n > 1:
      short = dict(plan, batches=plan['batches'][:-1], advance=plan['advance'][:-1], hold=(plan.get('hold') or [0] * n)[:-1],
                   restart_sets=[[i for i in s if i < n - 1] for s in plan['restart_sets']])
      short['restart_sets'] = [s for s in short['restart_sets'] if s] or [[0]]
      yield short
    for si, s in enumerate(plan['restart_sets']):
      for j in range(len(s)):
        if len(s) > 1:
          yield dict(plan, restart_sets=plan['restart_sets'][:si] + [s[:j] + s[j + 1:]] + plan['restart_sets'][si + 1:])
    for i, b in enumerate(plan['batches']):
      if b != 1:
        yield dict(plan, batches=plan['batches'][:i] + [1] + plan['batches'][i + 1:])
    if plan.get('infeasible_mod'):
      yield dict(plan, infeasible_mod=0)
    if plan.get('inf_mod'):
      yield dict(plan, inf_mod=0)
    if plan.get('xproc'):
      yield dict(plan, xproc=False)
    if plan.get('prior_life', 0) > 1:
      yield dict(plan, prior_life=1)
    if any(plan.get('hold') or []):
      yield dict(plan, hold=[0] * n)

  # ------------------------------------------------------------------ run
  def run(self, plan):
    res = runner.Result()
    res.bump('probe.depth.' + plan['depth'])
    if plan.get('exhaustive'):
      res.bump('probe.exhaustive-subsets')
    for restarts in plan['restart_sets']:
      try:
        if plan['depth'] == 'direct':
          viol, nontrivial = self._direct(plan, restarts, res)
        elif plan['depth'] == 'policy':
          viol, nontrivial = self._policy(plan, restarts, res)
        else:
          viol, nontrivial = self._service(plan, restarts, res)
      except Exception as e:  # pylint: disable=broad-except
        viol, nontrivial = [('algorithm-crashed', f'{type(e).__name__}: {str(e)[:200]}')], True
      bitmap = ''.join('1' if i in restarts else '0' for i in range(len(plan['batches'])))
      res.evaluation((plan['designer'], plan['depth'], bitmap, tuple(plan['batches'])), nontrivial)
      res.log.append([plan['designer'], plan['depth'], bitmap, [v[0] for v in viol]])
      if viol:
        seen = set()
        for clause, detail in viol:
          if clause not in seen:
            seen.add(clause)
            res.violate(clause, f'{plan["designer"]}/{plan["space"]} depth={plan["depth"]} restarts={restarts} batches={plan["batches"]}: {detail}',
                        sig={'designer': plan['designer'], 'depth': plan['depth']})
        break
    res.sample = {k: plan[k] for k in ('designer', 'space', 'seed', 'depth', 'batches')}
    res.sample['restart_sets'] = plan['restart_sets'][:4]
    return res

  def _infeasible(self, plan, tid):
    m = plan.get('infeasible_mod') or 0
    return bool(m) and tid % m == 0

  def _state_checks(self, name, A, B, step, viol, res, after='update'):
    if name == 'nsga2':
      if twin.population_canon(A) != twin.population_canon(B):
        viol.append(('population-differs-after-restart', f'step {step}: NSGA-II populations differ after {after}'))
    elif name == 'cmaes':
      if twin.cma_state(A) != twin.cma_state(B):
        viol.append(('optimizer-state-differs-after-restart', f'step {step}: CMA-ES state (minus RNG) differs after {after}'))

  def _direct(self, plan, restarts, res):
    name, seed = plan['designer'], plan['seed']
    prob = twin.problem(plan['space'], plan.get('metrics', 1))
    clk = simclock.SimClock(epoch=plan['epoch'])
    viol = []
    nontrivial = False
    with simclock.installed(clk, simclock.Entropy(seed)):
      A = twin.make(name, prob, seed)
      B = twin.make(name, prob, seed)
      tid = 0
      carry = []
      pool_was_full = False
      xproc_expect = False
      for step, count in enumerate(plan['batches']):
        clk.advance(plan['advance'][step])
        if step in restarts:
          md = B.dump()
          if plan.get('xproc') and step == max(restarts) and restarts == plan['restart_sets'][0]:  # once per plan
            other = _restart_in_another_process(plan, md, count, step)
            res.bump('fault.designer-restart-in-another-process')
            xproc_expect = other
          B = twin.make(name, prob, seed + 1000)
          B.load(md)
          res.bump('fault.designer-restart')
          if step > 0:
            nontrivial = True
            res.bump('probe.restart-after-state-changed')
        ma = A.verif_mutation.calls if name == 'nsga2' else 0
        mb = B.verif_mutation.calls if name == 'nsga2' else 0
        sa = A.suggest(count)
        sb = B.suggest(count)
        if xproc_expect is not False:
          got_other, xproc_expect = xproc_expect, False
          if got_other is None or got_other != [repr(twin.pkey(s)) for s in sa]:
            viol.append(('suggestions-differ-after-restart-in-another-process',
                         f'step {step}: live {[repr(twin.pkey(s)) for s in sa][:2]}, instance restored in a fresh interpreter (PYTHONHASHSEED={plan.get("hashseed")}) {str(got_other)[:200]}'))
            break
        if name in twin.DETERMINISTIC_DUMP:
          if [twin.pkey(s) for s in sa] != [twin.pkey(s) for s in sb]:
            viol.append(('suggestions-differ-after-restart', f'step {step}: live {[twin.pkey(s) for s in sa][:2]} restarted {[twin.pkey(s) for s in sb][:2]}'))
            break
        if name == 'nsga2':
          pa, pb = A.verif_mutation.calls > ma, B.verif_mutation.calls > mb
          if pa:
            res.bump('probe.nsga2-left-sampling-phase')
          if pa != pb:
            viol.append(('phase-differs-after-restart', f'step {step}: live instance is in the {"mutation" if pa else "sampling"} phase, restarted one in the {"mutation" if pb else "sampling"} phase'))
            break
          if pa:
            la, lb = [twin.lineage(s) for s in sa], [twin.lineage(s) for s in sb]
            res.bump('probe.nsga2-offspring-lineage-compared')
            if la != lb:
              viol.append(('offspring-lineage-differs-after-restart',
                           f'step {step}: the live instance breeds from population members {la[:3]}, the restarted one from {lb[:3]}'))
              break
        trials = list(carry)
        carry = []
        for s in sa:
          tid += 1
          inf = self._infeasible(plan, tid)
          if inf:
            res.bump('probe.infeasible-trial-fed')
          value = None
          if plan.get('inf_mod') and tid % plan['inf_mod'] == 1 and not inf:
            value = float('inf') if (tid // plan['inf_mod']) % 2 == 0 else float('-inf')
            res.bump('probe.infinite-objective-fed')
          trials.append(twin.complete(s, tid, infeasible=inf, metrics=plan.get('metrics', 1), value=value))
        # Completions reach the algorithm in another order than suggested, or late.
        order = plan.get('order', 'in-order')
        if order == 'reversed':
          trials.reverse()
        elif order in ('shuffled', 'delayed'):
          import random as _r  # pylint: disable=g-import-not-at-top
          _r.Random(plan.get('order_seed', 0) * 1000 + step).shuffle(trials)
        if order == 'delayed' and len(trials) > 1 and step + 1 < len(plan['batches']):
          carry = trials[-1:]
          trials = trials[:-1]
        hold = (plan.get('hold') or [0] * len(plan['batches']))[step]
        if hold == 2:
          carry, trials = trials + carry, []
          res.bump('probe.suggest-without-new-completions')
        elif hold == 1 and len(trials) > 1:
          carry, trials = carry + trials[-1:], trials[:-1]
        if order != 'in-order':
          res.bump('probe.out-of-order-completions')
        before = twin.cma_state(A) if name == 'cmaes' else None
        outcome = []
        for inst in (A, B):
          try:
            twin.update(inst, trials)
            outcome.append('ok')
          except Exception as e:  # pylint: disable=broad-except
            outcome.append(type(e).__name__)
        if outcome[0] != outcome[1]:
          viol.append(('update-outcome-differs-after-restart', f'step {step}: live instance {outcome[0]}, restarted instance {outcome[1]}'))
          break
        if outcome[0] != 'ok':
          # the algorithm refuses this history (e.g. an infeasible trial): both twins refused alike
          res.bump('probe.update-refused-by-both')
          break
        if name == 'cmaes' and twin.cma_state(A) != before:
          res.bump('probe.cmaes-generation-boundary')
        if name == 'eagle':
          pool = getattr(A, '_firefly_pool', None)
          if getattr(pool, 'size', 0) >= getattr(pool, 'capacity', 1 << 30):
            res.bump('probe.eagle-pool-full')
            pool_was_full = True
          elif pool_was_full:
            res.bump('probe.eagle-pool-shrank-after-being-full')
            pool_was_full = False
        self._state_checks(name, A, B, step, viol, res)
        if viol:
          break
    res.sim_s += clk.elapsed
    return viol, nontrivial

  def _policy(self, plan, restarts, res):
    name, seed = plan['designer'], plan['seed']
    viol = []
    nontrivial = False
    outs = []
    for run_b in (False, True):
      prob = twin.problem(plan['space'], plan.get('metrics', 1))
      clk = simclock.SimClock(epoch=plan['epoch'])
      with simclock.installed(clk, simclock.Entropy(seed)):
        supporter = pythia.InRamPolicySupporter(prob)

        def factory(p, seed=None, name=name):
          # The policy restores with factory(problem) i.e. seed=None; give such
          # instances a fixed seed different from the original (nothing may
          # depend on it) instead of OS entropy, so that runs replay.
          if name == 'cmaes':
            # exactly what the service's policy factory does: the class itself,
            # seed=None passed through (deterministic: evojax' default seed)
            from vizier._src.algorithms.designers import cmaes  # pylint: disable=g-import-not-at-top
            return cmaes.CMAESDesigner(p, seed=seed)
          return twin.make(name, p, seed if seed is not None else 424242)

        def new_policy():
          return dp.PartiallySerializableDesignerPolicy(
              supporter.study_config, supporter, factory, seed=None if name == 'cmaes' else seed)

        policy = new_policy()
        seq = []
        states = []
        pending = []
        for step, count in enumerate(plan['batches']):
          clk.advance(plan['advance'][step])
          if run_b and step in restarts:
            policy = new_policy()
            res.bump('fault.policy-rebuild')
            if step > 0:
              nontrivial = True
              res.bump('probe.restart-after-state-changed')
          mut0 = twin.CountingMutation.TOTAL[0]
          trials = supporter.SuggestTrials(policy, count)
          seq.append([twin.pkey(t) for t in trials])
          mutated = twin.CountingMutation.TOTAL[0] > mut0
          order = plan.get('order', 'in-order')
          trials = list(trials)
          if order == 'reversed':
            trials.reverse()
          elif order in ('shuffled', 'delayed'):
            import random as _r  # pylint: disable=g-import-not-at-top
            _r.Random(plan.get('order_seed', 0) * 1000 + step).shuffle(trials)
          hold = (plan.get('hold') or [0] * len(plan['batches']))[step]
          trials = pending + trials
          pending = []
          if hold == 2:
            pending, trials = trials, []
            if not run_b:
              res.bump('probe.suggest-without-new-completions')
          elif hold == 1 and len(trials) > 1:
            pending, trials = trials[-1:], trials[:-1]
          for t in trials:
            if self._infeasible(plan, t.id):
              t.complete(vz.Measurement(), infeasibility_reason='harness: infeasible')
            else:
              val = twin.objective(twin.pkey(t))
              m = {'m': val}
              if plan.get('metrics', 1) == 2:
                m['n'] = (val * 1.7) % 3.0
              t.complete(vz.Measurement(m))
          d = policy.designer
          if name == 'nsga2':
            # Each run evaluates its own suggestions, and the dump does not carry
            # the RNG, so across runs only the phase is history-independent.
            states.append(('phase', 'mutation' if mutated else 'sampling'))
            if mutated:
              res.bump('probe.nsga2-left-sampling-phase')
          elif name == 'cmaes':
            # histories differ between the runs (the dump carries no RNG), but the generation counter and
            # the number of pending members depend only on how many trials were incorporated
            states.append(('cma',) + twin.cma_counters(d))
        outs.append((seq, states))
      res.sim_s += clk.elapsed
    (sa, xa), (sb, xb) = outs
    if name in twin.DETERMINISTIC_DUMP:
      for step, (a, b) in enumerate(zip(sa, sb)):
        if a != b:
          viol.append(('suggestions-differ-after-restart', f'step {step}: kept-alive policy {a[:2]} rebuilt policy {b[:2]}'))
          break
    else:
      for step, (a, b) in enumerate(zip(xa, xb)):
        if a != b:
          what = 'phase' if a[:2] != b[:2] else 'population / optimizer state'
          clause = 'phase-differs-after-restart' if what == 'phase' else (
              'population-differs-after-restart' if name == 'nsga2' else 'optimizer-state-differs-after-restart')
          viol.append((clause, f'step {step}: kept-alive policy and rebuilt policy differ in {what} ({a[:2]} vs {b[:2]})'))
          break
    return viol, nontrivial

  def _service(self, plan, restarts, res):
    name, seed = plan['designer'], plan['seed']
    cfg = {'algorithm': SERVICE_ALGOS[name], 'space': SERVICE_SPACE[plan['space']], 'metrics': plan.get('metrics', 1),
           'recycle_s': 60.0}
    main = O.study_name(0, 0)
    viol = []
    nontrivial = False
    seqs = []
    for run_b in (False, True):
      clk = simclock.SimClock(epoch=plan['epoch'])
      with simclock.installed(clk, simclock.Entropy(seed)):
        world = O.World(cfg, backend='sqlfile' if run_b else 'ram')
        try:
          if run_b and plan.get('prior_life'):
            O.execute(world.sv, {'kind': 'CreateStudy', 'owner': 0, 'display': 0, 'state': 'ACTIVE'}, cfg)
            for k in range(plan['prior_life']):
              out = O.outcome_norm('SuggestTrials', O.execute(
                  world.sv, {'kind': 'SuggestTrials', 'study': main, 'n': 2, 'worker': k % 2}, cfg))
              for t in (out[2]['trials'] if out[0] == 'ok' else []):
                O.execute(world.sv, {'kind': 'CompleteTrial', 'study': main, 'trial': t['id'], 'ckind': 'final',
                                     'v': twin.objective(t['params']), 'w': 0}, cfg)
            O.execute(world.sv, {'kind': 'DeleteStudy', 'study': main}, cfg)
            res.bump('probe.prior-life-of-the-study-name')
          O.execute(world.sv, {'kind': 'CreateStudy', 'owner': 0, 'display': 0, 'state': 'ACTIVE'}, cfg)
          seq = []
          for step, count in enumerate(plan['batches']):
            clk.advance(plan['advance'][step])
            if run_b and step in restarts:
              world.reopen()
              res.bump('fault.server-restart')
              if step > 0:
                nontrivial = True
                res.bump('probe.restart-after-state-changed')
            w = step % 3
            out = O.outcome_norm('SuggestTrials', O.execute(
                world.sv, {'kind': 'SuggestTrials', 'study': main, 'n': count, 'worker': w}, cfg))
            if out[0] != 'ok' or out[2]['error']:
              viol.append(('hosted-algorithm-failed', f'step {step}: {out[1] if out[0] == "err" else out[2]["error"]}'))
              break
            got = sorted(out[2]['trials'], key=lambda t: t['id'])
            seq.append([t['params'] for t in got])
            for t in got:
              inf = self._infeasible(plan, t['id'])
              O.execute(world.sv, {'kind': 'CompleteTrial', 'study': main, 'trial': t['id'],
                                   'ckind': 'infeasible' if inf else 'final',
                                   'v': twin.objective(t['params']), 'w': 0}, cfg)
          seqs.append(seq)
        finally:
          world.destroy()
      res.sim_s += clk.elapsed
      if viol:
        return viol, nontrivial
    for step, (a, b) in enumerate(zip(seqs[0], seqs[1])):
      if a != b:
        viol.append(('suggestions-differ-after-restart', f'step {step}: never-restarted service {a[:2]} restarted service {b[:2]}'))
        break
    if name in ('grid', 'sgrid') and not viol:
      size = {'int10': 10, 'mixed': 10 * 6 * 3 * 3}[plan['space']]
      # Batches are delivered at once, so order inside a batch is immaterial:
      # no repeat while fewer than |grid| points were suggested, and the batch
      # that reaches |grid| must complete the coverage.
      seen = []
      for step, batch in enumerate(seqs[1]):
        seen += batch
        if len(seen) <= size and len(set(seen)) != len(seen):
          viol.append(('grid-point-repeated-before-exhaustion', f'after step {step}: {len(seen) - len(set(seen))} repeats among the first {len(seen)} of {size} grid points'))
          break
        if len(seen) >= size:
          if len(set(seen)) != size:
            viol.append(('grid-point-repeated-before-exhaustion', f'after step {step}: {len(seen)} suggestions cover only {len(set(seen))} of {size} grid points'))
          else:
            res.bump('probe.grid-fully-covered')
          break
    return viol, nontrivial


CHECK = C13()

del vs, itertools
