"""C01 - trial lifecycle vs. sequential reference model (DESIGN §3 C01)."""
from simkit import clock as simclock
from simkit import model as M
from simkit import ops as O
from simkit import runner
from simkit import workload as W

ALGOS = [('GRID_SEARCH', 'int10'), ('GRID_SEARCH', 'mixed'), ('QUASI_RANDOM_SEARCH', 'mixed'),
         ('RANDOM_SEARCH', 'mixed'), ('QUASI_RANDOM_SEARCH', 'f2'), ('RANDOM_SEARCH', 'int10')]


def run_history(plan, res, backends=None, stop_on_violation=True):
  """Executes plan['ops'] on one backend against model + monitors."""
  cfg = plan['cfg']
  backend = cfg['backend']
  clk = simclock.SimClock(epoch=cfg.get('epoch', simclock.EPOCH), tz_offset=3600.0 * cfg.get('tz_h', 0))
  ent = simclock.Entropy(plan.get('entropy', 0))
  store = 'ram' if backend == 'ram' else 'sql'
  with simclock.installed(clk, ent):
    world = O.World(cfg, backend=backend)
    try:
      model = M.Model(cfg)
      mon = M.Monitors()
      classes = []
      illegal = 0
      es_seen = set()
      for step, op in enumerate(plan['ops']):
        kind = op[0]
        if kind == 'Advance':
          clk.advance(op[1]['dt'])
          res.bump('clock.advance')
          res.log.append(['Advance', op[1]['dt']])
          continue
        if kind == 'ClockFault':
          clk.fault(op[1]['fault'], op[1].get('arg', 0))
          res.bump('clock.' + op[1]['fault'])
          res.log.append(['ClockFault', op[1]['fault']])
          continue
        if kind == 'Reopen':
          if world.reopen():
            res.bump('restart.clean')
          continue
        if kind == 'GetOperation':
          names = world.op_names
          if op[1].get('missing') or not names:
            c = {'kind': kind, 'name': 'owners/o0/operations/suggestion/s0/w0/99'}
          else:
            c = {'kind': kind, 'name': names[op[1]['sel'] % len(names)]}
        else:
          c = O.resolve(op, O.View(world.sv))
        es_before = world.calls.get('EarlyStop', 0)
        es_must = None  # True: this check must reach the algorithm; False: must be answered from the stored decision
        if kind == 'CheckES':
          try:
            owner, sid_ = c['study'].split('/')[1], c['study'].split('/')[3]
            old = world.sv.datastore.get_early_stopping_operation(
                f'owners/{owner}/operations/earlystopping/{sid_}/{c["trial"]}')
            age = clk.now - (old.completion_time.seconds + old.completion_time.nanos / 1e9)
            recycle = cfg.get('recycle_s', 60.0)
            if int(old.status) == 2:  # DONE: the stored decision stands for one recycle period
              es_must = True if age > recycle + 1.0 else (False if 0 <= age < recycle - 1.0 else None)
          except Exception:  # pylint: disable=broad-except
            es_must = None
        raw = O.execute(world.sv, c, cfg)
        out = O.outcome_norm(kind, raw)
        if out[0] == 'ok' and out[1] == 'op' and out[2]['name'] not in world.op_names:
          world.op_names.append(out[2]['name'])
        res.bump('op.' + kind)
        if out[0] == 'err':
          illegal += 1
          res.bump('outcome.' + out[1])
        classes.append(W.op_classes(c) + (out[0],))
        res.log.append([O.jsonable(c), O.jsonable(out)])
        mism = model.apply(c, out)
        snap = O.snapshot(world.sv, op_names=world.op_names)
        mism += model.compare_snapshot(snap)
        mism += mon.step(c, out, snap)
        if out[0] == 'ok' and out[1] == 'op':
          srcs = out[2]['trials']
          if any(t['id'] for t in srcs):
            res.bump('probe.suggest-served')
        if kind == 'CheckES' and out[0] == 'ok' and es_must is not None:
          reached = world.calls.get('EarlyStop', 0) > es_before
          if es_must and not reached:
            mism.append(('CheckES.stale-decision-not-recomputed', f'the stored decision is {age:.0f} s old (recycle period {recycle:.0f} s) but the algorithm was not asked again'))
          elif not es_must and reached:
            mism.append(('CheckES.recent-decision-recomputed', f'the stored decision is only {age:.0f} s old (recycle period {recycle:.0f} s) but the algorithm was asked again'))
        if kind == 'CheckES' and out[0] == 'ok':
          res.bump('probe.early-stop-answered')
          key = (c['study'], c['trial'])
          if key in es_seen and world.calls.get('EarlyStop', 0) > es_before:
            res.bump('probe.early-stop-recycled')
          elif key in es_seen:
            res.bump('probe.early-stop-from-recent-operation')
          es_seen.add(key)
        if kind in ('DeleteStudy', 'DeleteTrial') and out[0] == 'ok':
          es_seen = {k for k in es_seen if k[0] != c['study']}
        if kind == 'UpdateMetadata' and out[:3] == ('ok', 'md', 'error'):
          res.bump('probe.metadata-rejected-missing-trial')
        if mism:
          seen = set()
          for clause, detail in mism:
            if clause in seen:
              continue
            seen.add(clause)
            res.violate(clause, f'step {step} {kind} on {backend}: {detail}',
                        sig={'kind': kind, 'store': store}, step=step)
          if stop_on_violation:
            break
      completed = any(
          t['state'] in M.COMPLETED for st in model.studies.values() for t in st['trials'].values())
      if any(len(st['opnum']) for st in model.studies.values()):
        pass
      res.evaluation((backend, tuple(classes), model.signature()), completed and illegal > 0)
      res.sim_s += clk.elapsed
      res.sample = {
          'backend': backend, 'algorithm': cfg['algorithm'], 'space': cfg['space'],
          'ops': [[k, a] for k, a in plan['ops'][:12]], 'n_ops': len(plan['ops']),
          'final_state': O.jsonable(model.signature()),
      }
    finally:
      world.destroy()
  return res


class C01(runner.Check):
  prop = 'C01'
  level = 'exploration'
  engine = 'svc'
  rule = ('one evaluation = one generated history (5-60 ops over the 16 RPC kinds + GetOperation, '
          'clock jumps/advances) executed on one real backend against ModelService and the history '
          'monitors, full API snapshot compared after every op; distinct = hash of (backend, op kinds + '
          'argument classes + outcome class sequence, final model state signature); non-trivial iff '
          '>=1 trial reached a completed state and >=1 illegal call was issued')
  assumptions = [
      'ModelService encodes my reading of the documented API (DESIGN Appendix A)',
      'protoc_lite-generated message classes behave like protoc output',
      'timestamps are masked; algorithm-chosen parameter values are adopted, not predicted',
  ]
  runs = {'quick': 6400, 'thorough': 80000}
  budget_s = {'quick': 100, 'thorough': 1200}
  chunk = 40
  probes = ['probe.suggest-served', 'probe.early-stop-answered',
            'probe.metadata-rejected-missing-trial', 'clock.jump_back', 'clock.freeze',
            'probe.early-stop-recycled', 'probe.early-stop-from-recent-operation']

  def gen(self, rng, idx, tier):
    algo, space = rng.choice(ALGOS)
    backend = rng.choice(['ram', 'ram', 'sqlmem', 'sqlmem', 'sqlfile'] if tier == 'thorough'
                         else ['ram', 'ram', 'ram', 'sqlmem', 'sqlmem', 'sqlfile'])
    cfg = {
        'backend': backend, 'algorithm': algo, 'space': space, 'metrics': rng.choice([1, 2, 2]),
        'recycle_s': rng.choice([0.1, 60.0, 60.0]), 'epoch': simclock.EPOCH + rng.randrange(10**6),
    }
    cfg['id_rot'] = rng.randrange(len(O.STUDY_IDS))  # which adversarial id the main study carries
    cfg['tz_h'] = rng.choice([0, 0, 9, -8, 5.5])  # the host's local time zone (hours east of UTC)
    n = rng.randrange(5, 31 if tier == 'quick' else 61)
    profile = {'n_studies': rng.choice([1, 2, 3]), 'n_owners': rng.choice([1, 2]),
               'workers': rng.choice([1, 2, 3]), 'p_direct': rng.choice([0.1, 0.3])}
    weights = W.swarm_weights(rng)
    return {'cfg': cfg, 'entropy': rng.randrange(2**31), 'ops': W.gen_ops(rng, n, profile, weights)}

  def run(self, plan):
    return run_history(plan, runner.Result())

  def simplify(self, plan):
    return W.simplify_ops(plan)


CHECK = C01()
