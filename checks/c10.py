"""C10 - metadata is an exact last-writer-wins map across namespaces (DESIGN §3 C10)."""
from simkit import clock as simclock
from simkit import ops as O
from simkit import runner
from simkit import workload as W

from google.protobuf import any_pb2
from google.protobuf import wrappers_pb2
from vizier import pythia
from vizier._src.service import clients
from vizier._src.service import policy_factory as service_policy_factory
from vizier._src.service import vizier_client
from vizier._src.service import vizier_service_pb2 as vs
from vizier.service import pyvizier as vz

# ('caf\u00e9' and 'cafe\u0301' are canonically equivalent but different strings: distinct namespaces)
ALPHABET = ['caf\u00e9', 'cafe\u0301', '\u212b', '\u00c5', '', 'a', 'b', 'b:', ':', '\\', 'a\\', 'é', 'a:b', 'x', '\n', 'a\\\n', '\\\n', 'a b', ' ', 'a\\:', '\\\\']
BENIGN = ['', 'a', 'b', 'é', 'x']
# Keys share the namespace alphabet (incl. the separator) so that a store keyed
# on a concatenation of namespace and key would collide: ns ('a',) + key 'b:a'
# versus ns ('a','b') + key 'a'.
KEYS = ['k1', 'k2', '', 'a', 'b', 'b:a', 'a:b', ':a', 'ké', 'a\\']
ALGO_ROOT = 'verif_algo'
SEQ_NS = ('verif_seq',)


def nval(v):
  if isinstance(v, str):
    return ('S', v)
  if isinstance(v, any_pb2.Any):
    return ('P', v.type_url, bytes(v.value).hex())
  a = any_pb2.Any()
  a.Pack(v)
  return ('P', a.type_url, bytes(a.value).hex())


def mk_value(val):
  if val[0] == 'P':
    return wrappers_pb2.Int64Value(value=int(val[1]))
  if val[0] == 'PS':
    return wrappers_pb2.StringValue(value=str(val[1]))
  if val[0] == 'PB':
    return wrappers_pb2.BoolValue(value=bool(val[1]))
  return str(val[1])


def gen_value(rng):
  """String, empty string, or a packed proto; protos are often all-default (empty payload)."""
  r = rng.random()
  if r < 0.30:
    return rng.choice([['P', 0], ['P', 0], ['P', rng.randrange(1, 50)], ['P', rng.randrange(1, 50)],
                       ['PS', ''], ['PS', str(rng.randrange(50))], ['PB', 0], ['PB', 1]])
  if r < 0.40:
    return ['S', '']
  if r < 0.50:
    return ['S', rng.choice(['é✓ 日本', 'a\nb', ' ', 'a:b\\', '{"json": [1, 2]}', 'x' * 3000, '\t\r\n'])]
  return ['S', str(rng.randrange(50))]


def md_to_dict(md):
  return {(tuple(ns), k): nval(v) for ns, k, v in md.all_items()}


class WriterPolicy(pythia.Policy):
  """SEQUENCE-like algorithm that also performs the planned metadata writes."""

  def __init__(self, factory, supporter):
    self._f = factory
    self._supporter = supporter

  def suggest(self, request):
    md = request.study_config.metadata.abs_ns(vz.Namespace(SEQ_NS))
    k = int(md.get('n', default='0'))
    out = [vz.TrialSuggestion(O.param_values(self._f.space, k + i)) for i in range(request.count)]
    delta = vz.MetadataDelta()
    delta.on_study.abs_ns(vz.Namespace(SEQ_NS))['n'] = str(k + request.count)
    for w in self._f.pending:
      ns = vz.Namespace((ALGO_ROOT,) + tuple(w['ns']))
      if w.get('trial') is None:
        delta.on_study.abs_ns(ns)[w['key']] = mk_value(w['value'])
      else:
        delta.on_trials[int(w['trial'])].abs_ns(ns)[w['key']] = mk_value(w['value'])
    self._f.delivered = list(self._f.pending)
    self._f.last_n = str(k + request.count)
    self._f.pending = []
    self._f.calls += 1
    return pythia.SuggestDecision(out, metadata=delta)

  def early_stop(self, request):
    # the planned metadata writes can also travel with an early-stopping answer
    delta = vz.MetadataDelta()
    for w in self._f.pending:
      ns = vz.Namespace((ALGO_ROOT,) + tuple(w['ns']))
      if w.get('trial') is None:
        delta.on_study.abs_ns(ns)[w['key']] = mk_value(w['value'])
      else:
        delta.on_trials[int(w['trial'])].abs_ns(ns)[w['key']] = mk_value(w['value'])
    self._f.delivered = list(self._f.pending)
    self._f.pending = []
    self._f.es_calls += 1
    return pythia.EarlyStopDecisions(
        [pythia.EarlyStopDecision(id=i, reason='w', should_stop=False) for i in request.trial_ids], delta)


class WriterFactory(pythia.PolicyFactory):

  def __init__(self, space, real=False):
    self.space = space
    self.pending = []
    self.delivered = []
    self.calls = 0
    self.es_calls = 0
    self.es_writer = False
    self.last_n = None
    self.real = real
    self._default = service_policy_factory.DefaultPolicyFactory()

  def __call__(self, problem_statement, algorithm, policy_supporter, study_name):
    if algorithm == 'SEQUENCE' or (algorithm == 'RANDOM_SEARCH' and self.es_writer):
      # (the service asks the 'RANDOM_SEARCH' policy for every early-stopping decision)
      return WriterPolicy(self, policy_supporter)
    return self._default(problem_statement, algorithm, policy_supporter, study_name)


class C10(runner.Check):
  prop = 'C10'
  level = 'exploration'
  engine = 'svc'
  rule = ('one evaluation = one generated history of user writes (clients.Study/Trial.update_metadata, raw '
          'UpdateMetadata with mixed study/trial items, sometimes naming a missing trial) and algorithm '
          'writes (MetadataDelta emitted by a hosted policy during SuggestTrials, sometimes naming a missing '
          'trial) in namespaces over an adversarial alphabet, string and packed-proto values (three wrapper types, often with an all-default empty payload), interleaved '
          'with suggest/complete/delete/add-trial and server reopen, on all three backends; after every op '
          'materialize_study_config().metadata and every Trial.materialize().metadata must equal a '
          'dict model exactly; distinct = hash of the multiset of (scope, namespace shape, writer kind, value '
          'kind); non-trivial iff >=2 namespaces, both writer kinds and >=1 overwrite')
  assumptions = [
      'writes go through the pyvizier layer or use canonically encoded namespace strings and canonical trial ids',
      'entries of the built-in designer_policy_v0 namespace are algorithm-chosen and only required not to disturb other entries',
  ]
  runs = {'quick': 3200, 'thorough': 40000}
  budget_s = {'quick': 100, 'thorough': 1200}
  chunk = 40
  probes = ['probe.overwrite', 'probe.algo-write', 'probe.user-write', 'probe.missing-trial-rejected',
            'probe.algo-missing-trial', 'probe.proto-value', 'probe.proto-default-payload', 'probe.proto-overwrites-proto', 'probe.empty-value', 'restart.clean',
            'probe.ns-roundtrip-checked', 'probe.adversarial-namespace', 'probe.long-lived-handle-read', 'probe.creation-time-metadata', 'probe.completed-through-kept-handle',
            'probe.kept-trial-handle-read', 'probe.algo-write-via-early-stop', 'probe.client-multi-target-delta']

  def gen(self, rng, idx, tier):
    cfg = {
        'backend': rng.choice(['ram', 'ram', 'sqlmem', 'sqlfile']),
        'algorithm': rng.choice(['SEQUENCE', 'SEQUENCE', 'SEQUENCE', 'GRID_SEARCH']),
        'space': rng.choice(['int10', 'mixed']), 'epoch': simclock.EPOCH + rng.randrange(10**6),
    }
    cfg['id_rot'] = rng.randrange(len(O.STUDY_IDS))  # which adversarial id the main study carries
    alpha = rng.choice([ALPHABET, ALPHABET, BENIGN, ['a', 'b'], ['a', 'b', 'a:b']])
    nss = [()]
    for _ in range(rng.choice([1, 2, 3, 4])):
      nss.append(tuple(rng.choice(alpha) for _ in range(rng.choice([1, 1, 2, 3]))))

    def items(allow_missing, trial_p=0.5):
      out = []
      for _ in range(rng.choice([1, 1, 2, 3])):
        tr = None
        if rng.random() < trial_p:
          prefs = ['any', 'any', 'active', 'completed', 'max'] + (['missing'] if allow_missing else [])
          tr = {'pref': rng.choice(prefs), 'i': rng.randrange(8)}
        val = gen_value(rng)
        out.append({'trial': tr, 'ns': list(rng.choice(nss)), 'key': rng.choice(KEYS[:3] if rng.random() < 0.5 else KEYS), 'value': val})
      return out

    ss = {'o': 0, 'd': 0}

    def creation_md():
      # metadata supplied at creation time, stored in the order given (NOT sorted, never merged before)
      its = [dict(i, trial=None) for i in items(False, 0.0)] + [dict(i, trial=None) for i in items(False, 0.0)]
      rng.shuffle(its)
      seen, out = set(), []
      for it in its:
        k = (tuple(it['ns']), it['key'])
        if k not in seen:
          seen.add(k)
          out.append(it)
      return out

    ops = [['CreateStudy', {'o': 0, 'd': 0, 'state': 'ACTIVE', 'md': creation_md() if rng.random() < 0.4 else []}],
           ['SuggestTrials', {'study': ss, 'n': rng.choice([1, 2, 3]), 'worker': 0}]]
    n = rng.randrange(4, 21 if tier == 'quick' else 41)
    kinds = (['UserStudyMD'] * 4 + ['UserTrialMD'] * 4 + ['RawMD'] * 4 + ['RawMDRepeat'] * 2 + ['ClientDeltaMD'] * 3
             + ['AlgoWrite'] * 4 + ['AlgoWriteES'] * 2
             + ['SuggestTrials'] * 3 + ['CompleteTrial'] * 2 + ['ClientComplete'] * 2
             + ['DeleteTrial', 'CreateTrial', 'CreateTrial', 'Reopen', 'StopTrial'])
    while len(ops) < n:
      k = rng.choice(kinds)
      if k == 'UserStudyMD':
        ops.append([k, {'study': ss, 'items': [dict(i, trial=None) for i in items(False, 0.0)]}])
      elif k == 'UserTrialMD':
        its = items(False, 0.0)
        ops.append([k, {'study': ss, 'trial': {'pref': rng.choice(['any', 'active', 'completed', 'max', 'missing']), 'i': rng.randrange(8)}, 'items': its}])
      elif k == 'RawMD':
        ops.append([k, {'study': ss, 'items': items(True)}])
      elif k == 'RawMDRepeat':
        # a writer re-emitting unchanged per-trial state plus something new for other trials
        prev = [o for o in ops if o[0] in ('RawMD', 'RawMDRepeat')]
        base = [dict(it) for it in prev[-1][1]['items']] if prev else []
        ops.append(['RawMD', {'study': ss, 'items': base + items(False, 0.9)}])
      elif k == 'ClientDeltaMD':
        # one MetadataDelta naming the study and several trials, through VizierClient.update_metadata
        ops.append([k, {'study': ss, 'items': items(rng.random() < 0.4, 0.7) + items(False, 0.0)}])
      elif k == 'AlgoWrite':
        ops.append([k, {'study': ss, 'items': items(rng.random() < 0.25), 'n': rng.choice([1, 2]), 'worker': rng.randrange(2)}])
      elif k == 'AlgoWriteES':
        # study-only, trial-only or mixed deltas; sometimes nothing at the root namespace level
        its = items(False, rng.choice([0.0, 0.0, 0.5, 1.0]))
        ops.append([k, {'study': ss, 'items': its, 'trial': {'pref': 'active', 'i': rng.randrange(6)}}])
      elif k == 'SuggestTrials':
        ops.append([k, {'study': ss, 'n': rng.choice([1, 2, 3]), 'worker': rng.randrange(2)}])
      elif k == 'CompleteTrial':
        ops.append([k, {'study': ss, 'trial': {'pref': 'active', 'i': rng.randrange(6)}, 'ckind': rng.choice(['final', 'infeasible']), 'v': rng.randrange(5)}])
      elif k == 'DeleteTrial':
        ops.append([k, {'study': ss, 'trial': {'pref': rng.choice(['any', 'max']), 'i': rng.randrange(6)}}])
      elif k == 'CreateTrial':
        ops.append([k, {'study': ss, 'x': rng.randrange(40), 'tkind': rng.choice(['plain', 'succeeded']),
                        'md': creation_md() if rng.random() < 0.5 else []}])
      elif k == 'ClientComplete':
        ops.append([k, {'study': ss, 'trial': {'pref': 'active', 'i': rng.randrange(6)}, 'v': rng.randrange(5)}])
      elif k == 'StopTrial':
        ops.append([k, {'study': ss, 'trial': {'pref': 'active', 'i': rng.randrange(6)}}])
      else:
        ops.append([k, {}])
    return {'cfg': cfg, 'entropy': rng.randrange(2**31), 'ops': ops}

  def simplify(self, plan):
    if plan['cfg'].get('backend') != 'ram':
      yield dict(plan, cfg=dict(plan['cfg'], backend='ram'))
    ops = plan['ops']
    for i, (kind, a) in enumerate(ops):
      if 'items' in a and len(a['items']) > 1:
        for j in range(len(a['items'])):
          b = dict(a, items=a['items'][:j] + a['items'][j + 1:])
          yield dict(plan, ops=ops[:i] + [[kind, b]] + ops[i + 1:])
      if 'items' in a:
        for j, it in enumerate(a['items']):
          if len(it['ns']) > 1:
            for q in range(len(it['ns'])):
              it2 = dict(it, ns=it['ns'][:q] + it['ns'][q + 1:])
              b = dict(a, items=a['items'][:j] + [it2] + a['items'][j + 1:])
              yield dict(plan, ops=ops[:i] + [[kind, b]] + ops[i + 1:])
          if it['value'] != ['S', '1']:
            it2 = dict(it, value=['S', '1'])
            b = dict(a, items=a['items'][:j] + [it2] + a['items'][j + 1:])
            yield dict(plan, ops=ops[:i] + [[kind, b]] + ops[i + 1:])
    yield from W.simplify_ops(plan)

  def run(self, plan):
    res = runner.Result()
    cfg = plan['cfg']
    clk = simclock.SimClock(epoch=cfg.get('epoch', simclock.EPOCH))
    ent = simclock.Entropy(plan.get('entropy', 0))
    factory = WriterFactory(cfg.get('space', 'int10'))
    factory.es_writer = cfg.get('algorithm') == 'SEQUENCE'
    with simclock.installed(clk, ent):
      world = O.World(cfg, backend=cfg['backend'], policy_factory=factory)
      world.clk = clk
      try:
        self._drive(plan, res, world, factory)
      finally:
        world.destroy()
    res.sim_s += clk.elapsed
    return res

  def _drive(self, plan, res, world, factory):
    cfg = plan['cfg']
    main = O.study_name(0, 0)
    model_study = {}
    model_trials = {}
    shapes = []
    writers = set()
    ns_seen = set()
    overwrite = False
    long_lived = {}
    handles = {}  # trial id -> clients.Trial kept by "the user" since it completed the trial through it

    def add_md(proto_md, its):
      for it in its:
        kv = proto_md.add(key=it['key'], ns=vz.Namespace(tuple(it['ns'])).encode())
        v = mk_value(it['value'])
        if isinstance(v, str):
          kv.value = v
        else:
          kv.proto.Pack(v)

    for step, op in enumerate(plan['ops']):
      kind = op[0]
      sv = world.sv
      viol = []
      if kind == 'Reopen':
        if world.reopen():
          res.bump('restart.clean')
        continue
      view = O.View(sv)
      trials_now = set(view.studies.get(main, {}).get('trials', {}))
      study = clients.Study(vizier_client.VizierClient(main, 'unused', sv))

      def resolve_items(items):
        out = []
        for it in items:
          tr = None
          if it.get('trial') is not None:
            tr = O.resolve_trial(it['trial'], main, view)
          out.append(dict(it, trial=tr))
        return out

      def apply_items(items, root=()):
        nonlocal overwrite
        for it in items:
          ns = tuple(root) + tuple(it['ns'])
          v = nval(mk_value(it['value']))
          tgt = model_study if it['trial'] is None else model_trials.setdefault(it['trial'], {})
          tgt_old = dict(tgt)
          if (ns, it['key']) in tgt:
            overwrite = True
            res.bump('probe.overwrite')
          tgt[(ns, it['key'])] = v
          ns_seen.add(ns)
          shapes.append((it['trial'] is None, len(ns), 'algo' if root else 'user', v[0]))
          if v[0] == 'P':
            res.bump('probe.proto-value')
            if v[2] == '':
              res.bump('probe.proto-default-payload')
            old = tgt_old.get((ns, it['key']))
            if old is not None and old[0] == 'P' and old != v:
              res.bump('probe.proto-overwrites-proto')
          if v == ('S', ''):
            res.bump('probe.empty-value')
          if any(c in (':', '\\') for comp in ns for c in comp) or '' in ns:
            res.bump('probe.adversarial-namespace')

      def check_roundtrip(items, root=()):
        for it in items:
          ns = vz.Namespace(tuple(root) + tuple(it['ns']))
          res.bump('probe.ns-roundtrip-checked')
          back = vz.Namespace.decode(ns.encode())
          if back != ns:
            viol.append(('namespace-roundtrip', f'Namespace{tuple(ns)!r}.encode()={ns.encode()!r} decodes to {tuple(back)!r}'))

      if kind in ('UserStudyMD', 'UserTrialMD'):
        items = [dict(it, trial=None) for it in op[1]['items']]
        tid = None
        if kind == 'UserTrialMD':
          tid = O.resolve_trial(op[1]['trial'], main, view)
          items = [dict(it, trial=tid) for it in items]
        check_roundtrip(items)
        md = vz.Metadata()
        for it in items:
          md.abs_ns(vz.Namespace(tuple(it['ns'])))[it['key']] = mk_value(it['value'])
        # within one Metadata object the last assignment to a (ns,key) wins
        dedup = {}
        for it in items:
          dedup[(tuple(it['ns']), it['key'])] = it
        items = list(dedup.values())
        try:
          if kind == 'UserStudyMD':
            study.update_metadata(md)
          else:
            clients.Trial(vizier_client.VizierClient(main, 'unused', sv), tid).update_metadata(md)
          ok = True
        except Exception as e:  # pylint: disable=broad-except
          ok = False
          err = f'{type(e).__name__}: {str(e)[:120]}'
        missing = tid is not None and tid not in trials_now
        if missing:
          res.bump('probe.missing-trial-rejected')
          if ok:
            viol.append(('missing-trial-not-reported', f'{kind} on missing trial {tid} reported no error'))
        elif not ok:
          viol.append(('user-write-failed', f'{kind}: {err}'))
        else:
          apply_items(items)
          writers.add('user')
          res.bump('probe.user-write')
      elif kind == 'RawMD':
        items = resolve_items(op[1]['items'])
        check_roundtrip(items)
        req = vs.UpdateMetadataRequest(name=main)
        for it in items:
          u = req.delta.add()
          u.metadatum.ns = vz.Namespace(tuple(it['ns'])).encode()
          u.metadatum.key = it['key']
          v = mk_value(it['value'])
          if isinstance(v, str):
            u.metadatum.value = v
          else:
            u.metadatum.proto.Pack(v)
          if it['trial'] is not None:
            u.trial_id = str(it['trial'])
        r = O.call(sv.UpdateMetadata, req)
        missing = [it['trial'] for it in items if it['trial'] is not None and it['trial'] not in trials_now]
        if missing:
          res.bump('probe.missing-trial-rejected')
          if not (r[0] == 'err' or r[1].error_details):
            viol.append(('missing-trial-not-reported', f'raw UpdateMetadata naming missing trials {missing} reported no error'))
        elif r[0] != 'ok' or r[1].error_details:
          viol.append(('user-write-failed', f'raw UpdateMetadata: {r[1] if r[0] == "err" else r[1].error_details}'))
        else:
          apply_items(items)
          writers.add('user')
          res.bump('probe.user-write')
      elif kind == 'AlgoWrite':
        items = resolve_items(op[1]['items'])
        check_roundtrip(items, root=(ALGO_ROOT,))
        factory.pending = items
        factory.delivered = []
        c = {'kind': 'SuggestTrials', 'study': main, 'n': op[1]['n'], 'worker': op[1]['worker']}
        calls0 = factory.calls
        out = O.outcome_norm('SuggestTrials', O.execute(sv, c, cfg))
        factory.pending = []
        reached = factory.calls > calls0 and cfg['algorithm'] == 'SEQUENCE'
        if reached:
          missing = [it['trial'] for it in factory.delivered if it['trial'] is not None and it['trial'] not in trials_now]
          if missing:
            res.bump('probe.algo-missing-trial')
            if not (out[0] == 'ok' and out[1] == 'op' and out[2]['error']):
              viol.append(('algo-missing-trial-not-reported', f'algorithm delta naming missing trials {missing}: {out[:2]} without error'))
          else:
            dedup = {}
            for it in factory.delivered:
              dedup[(it['trial'], tuple(it['ns']), it['key'])] = it
            apply_items(list(dedup.values()), root=(ALGO_ROOT,))
            model_study[(SEQ_NS, 'n')] = ('S', factory.last_n)
            if factory.delivered:
              writers.add('algo')
              res.bump('probe.algo-write')
      elif kind == 'ClientDeltaMD':
        items = resolve_items(op[1]['items'])
        check_roundtrip(items)
        delta = vz.MetadataDelta()
        for it in items:
          tgt = delta.on_study if it['trial'] is None else delta.on_trials[int(it['trial'])]
          tgt.abs_ns(vz.Namespace(tuple(it['ns'])))[it['key']] = mk_value(it['value'])
        dedup = {}
        for it in items:
          dedup[(it['trial'], tuple(it['ns']), it['key'])] = it
        missing = [it['trial'] for it in items if it['trial'] is not None and it['trial'] not in trials_now]
        try:
          vizier_client.VizierClient(main, 'unused', sv).update_metadata(delta)
          ok = True
        except Exception as e:  # pylint: disable=broad-except
          ok, err = False, f'{type(e).__name__}: {str(e)[:120]}'
        res.bump('probe.client-multi-target-delta')
        if missing:
          res.bump('probe.missing-trial-rejected')
          if ok:
            viol.append(('missing-trial-not-reported', f'client delta naming missing trials {missing} reported no error'))
          # (and nothing may have changed: the read-back below compares with the unchanged model)
        elif not ok:
          viol.append(('user-write-failed', f'client delta: {err}'))
        else:
          apply_items(list(dedup.values()))
          writers.add('user')
          res.bump('probe.user-write')
      elif kind == 'AlgoWriteES':
        tid = O.resolve_trial(op[1]['trial'], main, view)
        st_now = view.studies.get(main, {}).get('trials', {}).get(tid)
        if cfg['algorithm'] == 'SEQUENCE' and (st_now == 'ACTIVE' or (isinstance(st_now, dict) and st_now.get('state') == 'ACTIVE')):
          items = [it for it in resolve_items(op[1]['items']) if it['trial'] is None or it['trial'] in trials_now]
          check_roundtrip(items, root=(ALGO_ROOT,))
          world.clk.advance(61.0)  # beyond the recycle period: the check must reach the algorithm
          factory.pending = items
          factory.delivered = []
          es0 = factory.es_calls
          r = O.call(sv.CheckTrialEarlyStoppingState, vs.CheckTrialEarlyStoppingStateRequest(trial_name=f'{main}/trials/{tid}'))
          factory.pending = []
          if factory.es_calls > es0:
            res.bump('probe.algo-write-via-early-stop')
            if r[0] != 'ok':
              viol.append(('early-stop-with-metadata-failed', f'CheckTrialEarlyStoppingState: {r[1]}'))
            else:
              dedup = {}
              for it in factory.delivered:
                dedup[(it['trial'], tuple(it['ns']), it['key'])] = it
              apply_items(list(dedup.values()), root=(ALGO_ROOT,))
              if factory.delivered:
                writers.add('algo')
      elif kind == 'ClientComplete':
        tid = O.resolve_trial(op[1]['trial'], main, view)
        if long_lived.get('sv') is sv and tid in trials_now:
          try:
            h = handles.get(tid) or long_lived['study'].get_trial(tid)
            h.complete(vz.Measurement({'m': float(op[1].get('v', 0))}))
            handles[tid] = h
            res.bump('probe.completed-through-kept-handle')
          except Exception:  # pylint: disable=broad-except
            pass  # e.g. the trial is not ACTIVE any more: lifecycle is C01's business
      elif kind in ('CreateStudy', 'CreateTrial') and op[1].get('md'):
        c = O.resolve(op, view)
        method, req = O.build_request(c, cfg)
        its = [dict(it, trial=None) for it in op[1]['md']]
        add_md(req.study.study_spec.metadata if kind == 'CreateStudy' else req.trial.metadata, its)
        r = O.call(getattr(sv, method), req)
        if r[0] == 'ok':
          res.bump('probe.creation-time-metadata')
          if kind == 'CreateStudy':
            if r[1].name == main and not trials_now and main not in view.studies:
              apply_items(its)
          else:
            new_id = int(r[1].id)
            apply_items([dict(it, trial=new_id) for it in its])
      else:
        c = O.resolve(op, view)
        calls0 = factory.calls
        out = O.outcome_norm(kind, O.execute(sv, c, cfg))
        if kind == 'SuggestTrials' and factory.calls > calls0 and cfg['algorithm'] == 'SEQUENCE':
          model_study[(SEQ_NS, 'n')] = ('S', factory.last_n)
        if kind == 'DeleteTrial' and out[0] == 'ok':
          model_trials.pop(c['trial'], None)
      res.bump('op.' + kind)
      res.log.append([kind, O.jsonable(op[1])])

      # ---- read everything back through the client layer
      sv = world.sv
      study = clients.Study(vizier_client.VizierClient(main, 'unused', sv))
      try:
        got_study = md_to_dict(study.materialize_study_config().metadata)
      except Exception as e:  # pylint: disable=broad-except
        got_study = None
        viol.append(('study-metadata-unreadable', f'{type(e).__name__}: {str(e)[:150]}'))
      if got_study is not None:
        got = {k: v for k, v in got_study.items() if not (k[0] and k[0][0] == 'designer_policy_v0')}
        if got != model_study:
          viol.append(self._md_diff('study', got, model_study))
      # ... and through a client handle that lives as long as the server does (a user's Study object
      # is typically created once): it must see the writes of algorithms and of other handles too.
      if long_lived.get('sv') is not sv:
        long_lived = {'sv': sv, 'study': clients.Study(vizier_client.VizierClient(main, 'unused', sv))}
      else:
        res.bump('probe.long-lived-handle-read')
      try:
        got_long = md_to_dict(long_lived['study'].materialize_study_config().metadata)
        got_long = {k: v for k, v in got_long.items() if not (k[0] and k[0][0] == 'designer_policy_v0')}
        if got_study is not None and got_long != model_study and got == model_study:
          c, d = self._md_diff('study', got_long, model_study)
          viol.append(('long-lived-handle:' + c, d))
      except Exception as e:  # pylint: disable=broad-except
        if got_study is not None:
          viol.append(('study-metadata-unreadable', f'long-lived handle: {type(e).__name__}: {str(e)[:150]}'))
      try:
        for t in study.trials().get():
          got = md_to_dict(t.metadata)
          exp = model_trials.get(t.id, {})
          if got != exp:
            viol.append(self._md_diff(f'trial {t.id}', got, exp))
            break
      except Exception as e:  # pylint: disable=broad-except
        viol.append(('trial-metadata-unreadable', f'{type(e).__name__}: {str(e)[:150]}'))
      if long_lived.get('sv') is not sv:
        handles = {}
      for tid, h in sorted(handles.items()):
        if tid not in model_trials and tid not in trials_now:
          continue
        try:
          got = md_to_dict(h.materialize().metadata)
        except Exception:  # pylint: disable=broad-except
          handles.pop(tid, None)  # deleted meanwhile
          continue
        res.bump('probe.kept-trial-handle-read')
        exp = model_trials.get(tid, {})
        if got != exp and not viol:
          c2, d2 = self._md_diff(f'trial {tid} through the handle that completed it', got, exp)
          viol.append(('kept-trial-handle:' + c2, d2))
      if viol:
        seen = set()
        for clause, detail in viol:
          if clause not in seen:
            seen.add(clause)
            res.violate(clause, f'step {step} {kind} on {cfg["backend"]}: {detail}', sig={'kind': kind}, step=step)
        break
    res.evaluation(tuple(sorted(set(shapes))), len(ns_seen) >= 2 and len(writers) == 2 and overwrite)
    res.sample = {'cfg': cfg, 'ops': plan['ops'][:8]}

  def _md_diff(self, what, got, exp):
    extra = sorted(k for k in got if k not in exp)
    missing = sorted(k for k in exp if k not in got)
    wrong = sorted(k for k in got if k in exp and got[k] != exp[k])
    clause = 'metadata-mismatch'
    if extra and missing:
      clause = 'metadata-entry-moved-or-collided'
    elif missing:
      clause = 'metadata-entry-lost'
    elif extra:
      clause = 'metadata-entry-appeared'
    elif wrong:
      clause = 'metadata-value-wrong'
    return (clause, f'{what}: extra={extra[:3]} missing={missing[:3]} wrong={[(k, got[k], exp[k]) for k in wrong[:2]]}')


CHECK = C10()
