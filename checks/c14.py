"""C14 - seeded algorithms and benchmark runs are reproducible (DESIGN §3 C14)."""
import json
import os
import random as _random
import subprocess
import sys

import numpy as _np

from simkit import boot
from simkit import clock as simclock
from simkit import runner
from simkit import twin

from vizier import pyvizier as vz

DESIGNERS = ['random', 'quasi', 'sgrid', 'eagle', 'nsga2', 'cmaes']
PERTURB = ['clock', 'py_random', 'np_random', 'jax_key', 'foreign_study', 'pythia_servicer', 'runner_reuse',
           'sibling_study']


PROCESS_HISTORY = {'sibling_study', 'foreign_study', 'runner_reuse', 'pythia_servicer'}


def _sibling(plan, seed):
  """Before ours: a whole study of the SAME algorithm on a sibling problem (same parameter names and
  types, other scale / feasible values), another seed, the same number of steps, overlapping trial ids."""
  if plan['kind'] != 'designer':
    return
  prob = twin.problem(twin.SIBLING.get(plan['space'], plan['space']), plan.get('metrics', 1))
  d = twin.make(plan['designer'], prob, (seed + 13) % (2**31), small=True)
  tid = 0
  for count in plan['batches']:
    trials = []
    for s in d.suggest(count):
      tid += 1
      trials.append(twin.complete(s, tid, metrics=plan.get('metrics', 1)))
    twin.update(d, trials)


def _foreign(step):
  """Another study, of another algorithm, in the same process."""
  p = twin.problem('mixed')
  d = twin.make(['random', 'quasi', 'eagle'][step % 3], p, 1000 + step)
  s = d.suggest(2)
  twin.update(d, [twin.complete(x, i + 1) for i, x in enumerate(s)])


def _perturb(kinds, step, clk):
  if 'py_random' in kinds:
    _random.seed(9000 + step)
    for _ in range(step % 5 + 1):
      _random.random()
  if 'np_random' in kinds:
    _np.random.seed(7000 + step)
    _np.random.rand(step % 4 + 1)
  if 'jax_key' in kinds:
    import jax  # pylint: disable=g-import-not-at-top
    k = jax.random.PRNGKey(step)
    jax.random.split(k)
  if 'foreign_study' in kinds and step % 2 == 0:
    _foreign(step)
  if 'pythia_servicer' in kinds and step % 3 == 0:
    from vizier._src.service import pythia_service  # pylint: disable=g-import-not-at-top
    pythia_service.PythiaServicer()
  if 'clock' in kinds:
    clk.fault(['jump_fwd', 'jump_back', 'freeze', 'coarse_on', 'coarse_off'][step % 5], 1000 * (step + 1))


def execute(plan, perturb, seed=None):
  """One execution; returns the list of produced parameter tuples (exact reprs)."""
  seed = plan['seed'] if seed is None else seed
  kinds = plan['perturb'] if perturb else []
  epoch = plan['epoch'] + (123456.789 if perturb and 'clock' in kinds else 0.0)
  clk = simclock.SimClock(epoch=epoch)
  out = []
  with simclock.installed(clk, simclock.Entropy(31337 if perturb else 1)):
    if perturb:
      _perturb(kinds, 0, clk)
      if 'sibling_study' in kinds:
        _sibling(plan, seed)
    if plan['kind'] == 'designer':
      prob = twin.problem(plan['space'], plan.get('metrics', 1))
      d = twin.make(plan['designer'], prob, seed, small=True)
      tid = 0
      for step, count in enumerate(plan['batches']):
        if perturb:
          _perturb(kinds, step + 1, clk)
        sugg = d.suggest(count)
        out.append([repr(twin.pkey(s)) for s in sugg])
        trials = []
        for s in sugg:
          tid += 1
          inf = bool(plan.get('infeasible_mod')) and tid % plan['infeasible_mod'] == 0
          trials.append(twin.complete(s, tid, infeasible=inf, metrics=plan.get('metrics', 1)))
        twin.update(d, trials)
    else:
      from vizier._src.benchmarks.experimenters import numpy_experimenter  # pylint: disable=g-import-not-at-top
      from vizier._src.benchmarks.experimenters.synthetic import bbob  # pylint: disable=g-import-not-at-top
      from vizier._src.benchmarks.runners import benchmark_runner  # pylint: disable=g-import-not-at-top
      from vizier._src.benchmarks.runners import benchmark_state  # pylint: disable=g-import-not-at-top
      dim = plan['dim']
      exp = numpy_experimenter.NumpyExperimenter(
          getattr(bbob, plan['function']), bbob.DefaultBBOBProblemStatement(dim))
      name = plan['designer']

      if plan.get('factory_style') == 'kwargs':
        # the protocol-shaped factory: (problem, **kwargs), forwarding the seed it is given
        def factory(problem, **kwargs):
          return twin.make(name, problem, kwargs.get('seed'), small=True)
      else:
        def factory(problem, seed=None, name=name):
          return twin.make(name, problem, seed, small=True)

      if plan.get('state_factory') == 'experimenter_designer':
        state_factory = benchmark_state.ExperimenterDesignerBenchmarkStateFactory(
            experimenter_factory=lambda: numpy_experimenter.NumpyExperimenter(
                getattr(bbob, plan['function']), bbob.DefaultBBOBProblemStatement(dim)),
            designer_factory=factory)
      else:
        state_factory = benchmark_state.DesignerBenchmarkStateFactory(experimenter=exp, designer_factory=factory)
      # seeds often come out of numpy (SeedSequence.generate_state, rng.integers): integers that are not `int`
      typed_seed = {'np.int64': _np.int64, 'np.uint32': _np.uint32}.get(plan.get('seed_type'), int)(seed)
      state = state_factory(seed=typed_seed)
      prior = []
      if plan.get('prior_study'):
        # a seeded prior study (its own seeded state + runner) attached before the main protocol
        prior = [benchmark_runner.EvaluateAndAddPriorStudy(
            benchmark_runner=benchmark_runner.BenchmarkRunner(
                benchmark_subroutines=[benchmark_runner.GenerateAndEvaluate(2)], num_repeats=2),
            benchmark_state_factory=state_factory, study_guid=plan['prior_study'], seed=(int(seed) + 5) % (2**31))]
      if plan['protocol'] == 'generate_and_evaluate':
        subs = [benchmark_runner.GenerateAndEvaluate(plan['batch'])]
      elif plan['protocol'] == 'fill_then_partial':
        subs = [benchmark_runner.FillActiveTrials(plan['batch'] + plan['partial']),
                benchmark_runner.EvaluateActiveTrials(plan['partial'])]
      else:
        subs = [benchmark_runner.GenerateSuggestions(plan['batch']),
                benchmark_runner.EvaluateActiveTrials(plan['partial'])]
      if perturb and 'runner_reuse' in kinds:
        # "a runner can be applied to multiple benchmarks": the very same protocol objects first drove
        # another seeded study in this process
        other = state_factory(seed=(seed + 77) % (2**31))
        benchmark_runner.BenchmarkRunner(benchmark_subroutines=subs, num_repeats=3).run(other)
      if prior:
        benchmark_runner.BenchmarkRunner(benchmark_subroutines=prior, num_repeats=1).run(state)
      if plan.get('runner_style') == 'repeats':
        # one runner repeating the protocol by itself
        benchmark_runner.BenchmarkRunner(benchmark_subroutines=subs, num_repeats=plan['repeats']).run(state)
      else:
        for rep in range(plan['repeats']):
          if perturb:
            _perturb(kinds, rep + 1, clk)
          benchmark_runner.BenchmarkRunner(benchmark_subroutines=subs, num_repeats=1).run(state)
      for guid, st in sorted(getattr(state.algorithm.supporter, 'prior_studies', {}).items()):
        out.append(['prior', guid, [repr(twin.pkey(t)) for t in st.trials]])
      for t in state.algorithm.supporter.trials:
        fm = None
        if t.final_measurement is not None:
          fm = sorted((k, repr(v.value)) for k, v in t.final_measurement.metrics.items())
        out.append([t.id, repr(twin.pkey(t)), str(t.status), fm])
  return out


def child_main(path):
  """Entry for the fresh-process twin: prints the execution as JSON."""
  plan = json.load(open(path))
  print('C14CHILD ' + json.dumps(execute(plan, perturb=True)))
  return 0


class C14(runner.Check):
  prop = 'C14'
  level = 'exploration'
  engine = 'twin'
  rule = ('one evaluation = one (designer or benchmark protocol, seed, problem, history, perturbation set): '
          'execution X runs undisturbed; execution Y of the same seed runs with the perturbations injected '
          'before and between steps (simulated-clock epoch / jumps / resolution, re-seeded and advanced global '
          'python and numpy RNGs, jax keys, other studies of other algorithms run in between, a PythiaServicer '
          'instantiation, the benchmark protocol objects having driven another study before, a whole study of the same '
          'algorithm on a sibling problem (same parameter names / types, other scale and feasible values) run before; a sample also in a fresh interpreter with another PYTHONHASHSEED); X and Y must '
          'produce identical suggestions / trial sequences and a different seed must change them; designers: '
          'random, quasi-random, shuffled grid, eagle, NSGA-II, CMA-ES; protocols: GenerateAndEvaluate and '
          'GenerateSuggestions / FillActiveTrials + partial EvaluateActiveTrials on BBOB functions; distinct = hash of (designer, '
          'seed, perturbation kinds, history shape); non-trivial iff >=2 perturbation kinds fired')
  assumptions = [
      'GP bandit and GP-UCB-PE are NOT covered: equinox cannot be imported under the installed jax, so the claim is limited to the other six designers and the benchmark runner',
      'jax_enable_x64 is pinned to True at boot; a float32/float64 dependency on earlier PythiaServicer creation is therefore not explored',
  ]
  runs = {'quick': 900, 'thorough': 12000}
  budget_s = {'quick': 110, 'thorough': 1500}
  chunk = 1  # one pristine process per run: module-level state in designers is what C14 is about
  probes = ['perturb.clock', 'perturb.py_random', 'perturb.np_random', 'perturb.foreign_study', 'perturb.runner_reuse', 'perturb.sibling_study',
            'perturb.fresh_process', 'probe.seed-changes-stream', 'probe.benchmark-protocol',
            'probe.partial-evaluation', 'probe.perturbed-run-in-own-process']

  def gen(self, rng, idx, tier):
    name = rng.choice(['random', 'quasi', 'sgrid', 'eagle', 'eagle', 'nsga2', 'nsga2'])
    if rng.random() < (0.03 if tier == 'quick' else 0.06):
      name = 'cmaes'
    kinds = sorted(rng.sample(PERTURB, rng.choice([2, 3, 4, 8])))
    # edge seeds on purpose: 0 is falsy, 2**31-1 / 2**32-1 are range limits
    seed = rng.randrange(1, 10**6) if rng.random() < 0.8 else rng.choice([0, 0, 0, 1, 2**31 - 1, 2**32 - 1, 2**32 - 2])
    # A fresh interpreter with another PYTHONHASHSEED is the only way to perturb set /
    # dict-of-str iteration order; eagle and NSGA-II (per-parameter loops) get it more often.
    plan = {'designer': name, 'seed': seed, 'perturb': kinds,
            'epoch': simclock.EPOCH + rng.randrange(10**6),
            'fresh_process': rng.random() < (0.14 if name in ('eagle', 'nsga2') else 0.04),
            'hashseed': rng.choice([1, 9, 4242, 123456])}
    if rng.random() < 0.3 and name != 'sgrid':
      plan.update(kind='benchmark', dim=rng.choice([2, 3]), function=rng.choice(['Sphere', 'BuecheRastrigin', 'DifferentPowers', 'StepEllipsoidal', 'Schwefel']),
                  protocol=rng.choice(['generate_and_evaluate', 'suggest_then_partial', 'fill_then_partial']),
                  batch=rng.choice([1, 2, 3, 5]), partial=rng.choice([1, 2]), repeats=rng.choice([3, 5, 8]),
                  state_factory=rng.choice(['designer', 'designer', 'experimenter_designer']),
                  runner_style=rng.choice(['loop', 'loop', 'repeats']),
                  factory_style=rng.choice(['explicit', 'explicit', 'kwargs']),
                  seed_type=rng.choice(['int', 'int', 'np.int64', 'np.uint32']),
                  prior_study=rng.choice([None, None, None, 'prior', 'owners/x/studies/prior']))
      if plan['prior_study']:
        plan['fresh_process'] = plan['fresh_process'] or rng.random() < 0.5
      if plan['seed'] >= 2**31:
        plan['seed_type'] = 'int' if plan['seed_type'] == 'np.int64' or plan['seed'] >= 2**32 else plan['seed_type']
      if name == 'cmaes':
        plan['repeats'] = 3
    else:
      n = rng.choice([2, 4, 6, 10]) if name != 'cmaes' else rng.choice([2, 4])
      if name == 'eagle' and plan['fresh_process']:
        n = rng.choice([6, 10, 14])  # long enough for the pool to fill and flies to be mutated
      plan.update(kind='designer', space=rng.choice([s for s in twin.SPACES[name] if s != 'small']),
                  batches=[rng.choice([1, 2, 3, 5]) for _ in range(n)],
                  infeasible_mod=rng.choice([0, 0, 4]) if name != 'nsga2' else 0,
                  metrics=2 if (name == 'nsga2' and rng.random() < 0.5) else 1)
    return plan

  def shrink_lists(self, plan):
    return ['perturb'] + (['batches'] if plan.get('kind') == 'designer' else [])

  def simplify(self, plan):
    if plan.get('fresh_process'):
      yield dict(plan, fresh_process=False)
    if plan.get('kind') == 'benchmark' and plan['repeats'] > 1:
      yield dict(plan, repeats=plan['repeats'] - 1)

  def run(self, plan):
    res = runner.Result()
    name = plan['designer']
    if set(plan['perturb']) & PROCESS_HISTORY:
      # "what other studies ran before in the same process": the perturbed execution gets a process of
      # its own (forked while this one is still pristine), or state left behind by X would mask it
      status, y = runner.in_pristine_child(lambda: execute(plan, perturb=True))
      if status != 'ok':
        raise RuntimeError('perturbed execution failed in its child: ' + str(y)[-800:])
      res.bump('probe.perturbed-run-in-own-process')
      x = execute(plan, perturb=False)
    else:
      x = execute(plan, perturb=False)
      y = execute(plan, perturb=True)
    for k in plan['perturb']:
      res.bump('perturb.' + k)
    if plan.get('kind') == 'benchmark':
      res.bump('probe.benchmark-protocol')
      if plan['protocol'] != 'generate_and_evaluate':
        res.bump('probe.partial-evaluation')
    sig = {'designer': name, 'kind': plan.get('kind')}
    y = json.loads(json.dumps(y))
    x = json.loads(json.dumps(x))
    if x != y:
      step = next((i for i, (a, b) in enumerate(zip(x, y)) if a != b), min(len(x), len(y)))
      res.violate('same-seed-runs-differ', f'{name} seed={plan["seed"]} perturbations={plan["perturb"]}: first difference at item {step}: {str(x[step])[:120] if step < len(x) else None} vs {str(y[step])[:120] if step < len(y) else None}', sig=sig)
    else:
      # A single other seed may collide by chance on a short discrete history;
      # the seed is ignored only if several other seeds all give the same output.
      others = [plan['seed'] + k for k in (1, 2, 3, 5, 8)]
      if plan['seed'] > 2**32 - 10:
        others = [plan['seed'] - k for k in (1, 2, 3, 5, 8)]  # stay inside the 32-bit range some designers require
      if (plan['seed'] >= 2**31 - 1 and name in ('random', 'eagle', 'nsga2', 'cmaes') and plan.get('kind') == 'designer'
          and plan.get('space') not in ('small', 'int10') and len(x) > 0
          and execute(plan, perturb=False, seed=0) == x):
        # a seed at the edge of the legal range must not fold onto another legal seed (continuous spaces:
        # two different streams never coincide)
        res.violate('edge-seed-collides-with-seed-zero', f'{name}: seed {plan["seed"]} gives exactly the output of seed 0', sig=sig)
      if len(x) > 0 and all(execute(plan, perturb=False, seed=s2) == x for s2 in others):
        res.violate('seed-has-no-effect', f'{name}: seeds {plan["seed"]} and {others} all give identical output', sig=sig)
      else:
        res.bump('probe.seed-changes-stream')
    if plan.get('fresh_process') and not res.violations:
      child = self._fresh_process(plan)
      res.bump('perturb.fresh_process')
      if child is None:
        res.violate('fresh-process-run-failed', f'{name}: child interpreter failed', sig=sig)
      elif child != json.loads(json.dumps(x)):
        step = next((i for i, (a, b) in enumerate(zip(x, child)) if json.loads(json.dumps(a)) != b), 0)
        res.violate('fresh-process-run-differs', f'{name} seed={plan["seed"]}: first difference at item {step} (PYTHONHASHSEED={plan.get("hashseed", 4242)}, fresh interpreter)', sig=sig)
    res.log.append([plan['designer'], plan.get('kind'), plan['perturb'], x])
    res.evaluation((name, plan.get('kind'), tuple(plan['perturb']), len(x), plan.get('fresh_process')),
                   len(plan['perturb']) + (1 if plan.get('fresh_process') else 0) >= 2)
    res.sample = {k: plan[k] for k in plan if k != 'epoch'}
    res.sample['first_items'] = x[:2]
    return res

  def _fresh_process(self, plan):
    import tempfile  # pylint: disable=g-import-not-at-top
    fd, path = tempfile.mkstemp(prefix='c14-', suffix='.json')
    try:
      with os.fdopen(fd, 'w') as f:
        json.dump(plan, f)
      env = dict(os.environ)
      env.pop('_VERIF_PINNED', None)
      env['VERIF_HASHSEED'] = str(plan.get('hashseed', 4242))
      p = subprocess.run([sys.executable, os.path.join(boot.VERIF_ROOT, 'vcheck'), 'c14-child', path],
                         capture_output=True, text=True, env=env, timeout=300)
      for line in p.stdout.splitlines():
        if line.startswith('C14CHILD '):
          return json.loads(line[len('C14CHILD '):])
      return None
    finally:
      os.unlink(path)


CHECK = C14()

del vz
