"""C02 - suggest contract (DESIGN §3 C02). History checker, independent of ModelService."""
from simkit import clock as simclock
from simkit import model as M
from simkit import ops as O
from simkit import policies as P
from simkit import runner
from simkit import workload as W

from vizier._src.service import clients
from vizier._src.service import vizier_client
from vizier.service import pyvizier as vz

POLL_CAP = 50


class PollBudgetExceeded(BaseException):
  pass


class C02(runner.Check):
  prop = 'C02'
  level = 'exploration'
  engine = 'svc'
  rule = ('one evaluation = one generated history of suggest / complete / request / add_trial / delete by '
          '1-4 worker ids (raw RPC and real clients.Study.suggest polling loop on the simulated clock) with '
          'the algorithm delivering exactly / more / fewer / zero suggestions (policy seam), RAM or SQLite; '
          'after every suggest the response and ListTrials are checked against the contract (size, ACTIVE + '
          'assigned, own first, then pool, then new; nothing dropped; fresh ids); distinct = hash of the '
          '(worker, N, own/pool/new mix, delivery mode) sequence; non-trivial iff >=2 workers and >=1 '
          'suggest served from >=2 sources; 10 % of the evaluations instead run a suggest-centred batch of 2-3 '
          'concurrent calls (suggest by another worker / request / complete / stop) under C04\'s seeded thread '
          'scheduler and serial-equivalence oracle')
  assumptions = [
      'order of trials inside a response is not checked, only which sources they come from',
      'the number of suggestions the algorithm delivered is observed at the policy seam',
  ]
  runs = {'quick': 3200, 'thorough': 40000}
  budget_s = {'quick': 100, 'thorough': 1200}
  chunk = 40
  probes = ['probe.own-only-answer', 'probe.pool-used', 'probe.over-delivery-queued',
            'probe.short-delivery', 'probe.zero-delivery', 'probe.two-sources', 'probe.three-sources',
            'probe.client-suggest', 'probe.repeat-same-set', 'probe.concurrent-batch']

  def gen(self, rng, idx, tier):
    if rng.random() < 0.10:
      return self._gen_concurrent(rng, idx, tier)
    cfg = {
        'backend': rng.choice(['ram', 'ram', 'sqlmem', 'sqlfile']),
        'algorithm': rng.choice(['SEQUENCE', 'SEQUENCE', 'GRID_SEARCH', 'QUASI_RANDOM_SEARCH', 'RANDOM_SEARCH']),
        'space': rng.choice(['int10', 'mixed']), 'epoch': simclock.EPOCH + rng.randrange(10**6),
    }
    cfg['id_rot'] = rng.randrange(len(O.STUDY_IDS))  # which adversarial id the main study carries
    faults = []
    mode = rng.choice(['exact', 'exact', 'over', 'under', 'zero', 'mixed', 'mixed'])
    if mode != 'exact':
      for at in rng.sample(range(1, 12), rng.choice([1, 2, 3, 5])):
        if mode == 'mixed':
          kind = rng.choice(['deliver:+1', 'deliver:+2', 'deliver:+3', 'deliver:-1', 'deliver:-2', 'deliver:0'])
        elif mode == 'over':
          kind = rng.choice(['deliver:+1', 'deliver:+2', 'deliver:+3'])
        elif mode == 'under':
          kind = rng.choice(['deliver:-1', 'deliver:-2'])
        else:
          kind = 'deliver:0'
        faults.append({'site': 'suggest', 'at': at, 'kind': kind})
    workers = rng.choice([1, 2, 2, 3, 4])
    ss = {'o': 0, 'd': 0}
    ops = [['CreateStudy', {'o': 0, 'd': 0, 'state': 'ACTIVE'}]]
    n = rng.randrange(4, 25 if tier == 'quick' else 41)
    kinds = (['SuggestTrials'] * 7 + ['ClientSuggest'] * 3 + ['CompleteTrial'] * 5
             + ['CreateTrial'] * 3 + ['ClientRequest', 'ClientAddTrial', 'DeleteTrial', 'DeleteTrial',
                                      'StopTrial', 'M:repeat'])
    while len(ops) < n:
      k = rng.choice(kinds)
      w = rng.randrange(workers)
      if k in ('SuggestTrials', 'ClientSuggest'):
        ops.append([k, {'study': ss, 'n': rng.choice([1, 1, 2, 2, 3, 4, 5]), 'worker': w}])
      elif k == 'M:repeat':
        nn = rng.choice([1, 2, 3])
        ops.append(['SuggestTrials', {'study': ss, 'n': nn, 'worker': w}])
        ops.append(['SuggestTrials', {'study': ss, 'n': nn, 'worker': w}])
      elif k == 'CompleteTrial':
        ops.append([k, {'study': ss, 'trial': {'pref': rng.choice(['active', 'active', 'mutable', 'any']), 'i': rng.randrange(8)},
                        'ckind': rng.choice(['final', 'final', 'infeasible']), 'v': rng.randrange(5)}])
      elif k == 'CreateTrial':
        ops.append([k, {'study': ss, 'x': rng.randrange(60), 'tkind': rng.choice(['plain', 'plain', 'succeeded'])}])
      elif k in ('ClientRequest', 'ClientAddTrial'):
        ops.append([k, {'study': ss, 'x': rng.randrange(60)}])
      elif k == 'DeleteTrial':
        ops.append([k, {'study': ss, 'trial': {'pref': rng.choice(['any', 'max', 'requested', 'active']), 'i': rng.randrange(8)}}])
      else:
        ops.append([k, {'study': ss, 'trial': {'pref': 'active', 'i': rng.randrange(8)}}])
    return {'cfg': cfg, 'faults': faults, 'entropy': rng.randrange(2**31), 'ops': ops}

  def _gen_concurrent(self, rng, idx, tier):
    """Suggest-centred concurrent batch: the same contract while other workers act at the same time.

    Engine, schedule search and serial-equivalence oracle are C04's; only the
    batch is restricted to what C02 speaks about (suggest vs. suggest by
    another worker / request / add_trial / complete / stop in the same study).
    """
    from checks import c04  # pylint: disable=g-import-not-at-top
    plan = c04.CHECK.gen(rng, idx, tier)
    s0 = {'o': 0, 'd': 0}
    if rng.random() < 0.5:
      plan['ops'] = plan['ops'] + [['CreateTrial', {'study': s0, 'x': rng.randrange(100), 'tkind': 'plain'}]
                                   for _ in range(rng.choice([1, 2]))]
    w = rng.randrange(4)
    batch = [['SuggestTrials', {'study': s0, 'n': rng.choice([1, 2, 3]), 'worker': w}]]
    for _ in range(rng.choice([1, 1, 2])):
      k = rng.choice(['SuggestTrials', 'SuggestTrials', 'CreateTrial', 'CreateTrial', 'CompleteTrial', 'StopTrial'])
      if k == 'SuggestTrials':
        batch.append([k, {'study': s0, 'n': rng.choice([1, 2, 3]), 'worker': (w + rng.randrange(1, 4)) % 4}])
      elif k == 'CreateTrial':
        batch.append([k, {'study': s0, 'x': rng.randrange(100), 'tkind': rng.choice(['plain', 'plain', 'succeeded'])}])
      elif k == 'CompleteTrial':
        batch.append([k, {'study': s0, 'trial': {'pref': rng.choice(['active', 'requested']), 'i': rng.randrange(4)},
                          'ckind': 'final', 'v': rng.randrange(5), 'w': 0}])
      else:
        batch.append([k, {'study': s0, 'trial': {'pref': rng.choice(['active', 'requested']), 'i': rng.randrange(4)}}])
    rng.shuffle(batch)
    plan['batch'] = batch
    plan['scheds'] = plan['scheds'][:10]
    plan['conc'] = True
    return plan

  def shrink_lists(self, plan):
    if plan.get('conc'):
      from checks import c04  # pylint: disable=g-import-not-at-top
      return c04.CHECK.shrink_lists(plan)
    return ['ops', 'faults']

  def simplify(self, plan):
    if plan.get('conc'):
      from checks import c04  # pylint: disable=g-import-not-at-top
      yield from c04.CHECK.simplify(plan)
      return
    if plan['cfg'].get('backend') != 'ram':
      yield dict(plan, cfg=dict(plan['cfg'], backend='ram'))
    yield from W.simplify_ops(plan)

  def run(self, plan):
    if plan.get('conc'):
      from checks import c04  # pylint: disable=g-import-not-at-top
      res = c04.CHECK.run(plan)
      res.bump('probe.concurrent-batch')
      for v in res.violations:
        if isinstance(v, dict) and 'clause' in v:
          v['clause'] = 'concurrent-workers:' + v['clause']
      return res
    res = runner.Result()
    cfg = plan['cfg']
    clk = simclock.SimClock(epoch=cfg.get('epoch', simclock.EPOCH))
    ent = simclock.Entropy(plan.get('entropy', 0))
    factory = P.FaultyFactory(P.base_factory(cfg), plan.get('faults', []))
    polls = [0]
    with simclock.installed(clk, ent):
      real_sleep = vizier_client.time.sleep

      def counted_sleep(dt):
        polls[0] += 1
        if polls[0] > POLL_CAP:
          raise PollBudgetExceeded()
        real_sleep(dt)

      vizier_client.time.sleep = counted_sleep
      world = O.World(cfg, backend=cfg['backend'], policy_factory=factory)
      try:
        self._drive(plan, res, world, factory, polls)
      finally:
        world.destroy()
    res.sim_s += clk.elapsed
    return res

  def _drive(self, plan, res, world, factory, polls):
    cfg = plan['cfg']
    sv = world.sv
    mon = M.Monitors()
    classes = []
    workers_seen = set()
    multi_source = False
    last = {}  # worker -> (n, ids) of the previous suggest, if nothing happened since
    for step, op in enumerate(plan['ops']):
      kind = op[0]
      rpc_kind = {'ClientSuggest': 'SuggestTrials', 'ClientRequest': 'CreateTrial',
                  'ClientAddTrial': 'CreateTrial'}.get(kind, kind)
      c = O.resolve([rpc_kind, op[1]], O.View(sv))
      c['kind'] = kind
      pre = O.snapshot(sv, include_ops=False)
      ndel0 = len(factory.deliveries)
      calls0 = factory.calls['suggest']
      polls[0] = 0
      viol = []
      if kind == 'ClientSuggest':
        w = O.WORKERS[c['worker'] % len(O.WORKERS)]
        study = clients.Study(vizier_client.VizierClient(c['study'], 'unused', sv))
        try:
          ts = study.suggest(count=c['n'], client_id=w)
          got = [t.materialize() for t in ts]
          trials = [{'id': t.id, 'state': 'ACTIVE' if t.status == vz.TrialStatus.ACTIVE else str(t.status),
                     'client': t.assigned_worker} for t in got]
          out = ('ok', 'client', trials)
          res.bump('probe.client-suggest')
        except PollBudgetExceeded:
          out = ('err', 'POLL-FOREVER')
          viol.append(('client-polls-forever', f'suggest by {w} still polling after {POLL_CAP} polls'))
        except Exception as e:  # pylint: disable=broad-except
          out = ('err', 'OPERATION-ERROR' if isinstance(e, RuntimeError) else O.fam(e))
      elif kind in ('ClientRequest', 'ClientAddTrial'):
        study = clients.Study(vizier_client.VizierClient(c['study'], 'unused', sv))
        params = O.param_values(cfg.get('space', 'int10'), c['x'])
        try:
          if kind == 'ClientRequest':
            t = study.request(vz.TrialSuggestion(params))
          else:
            t = study.add_trial(vz.Trial(parameters=params))
          out = ('ok', 'client-trial', t.id)
        except Exception as e:  # pylint: disable=broad-except
          out = ('err', O.fam(e))
      else:
        out = O.outcome_norm(kind, O.execute(sv, c, cfg))
      snap = O.snapshot(sv, include_ops=False)
      res.bump('op.' + kind)
      res.log.append([O.jsonable(c), O.jsonable(out)])
      st_pre = pre['studies'].get(c.get('study'))
      st_post = snap['studies'].get(c.get('study'))
      ok_study = (st_pre is not None and isinstance(st_pre['study'], dict)
                  and st_pre['study']['state'] in O.MUTABLE_STUDY and isinstance(st_pre['trials'], dict)
                  and st_post is not None and isinstance(st_post['trials'], dict))

      if kind in ('SuggestTrials', 'ClientSuggest') and ok_study:
        w = O.WORKERS[c['worker'] % len(O.WORKERS)]
        workers_seen.add(w)
        n = c['n']
        T0, T1 = st_pre['trials'], st_post['trials']
        own = sorted(i for i, t in T0.items() if t['state'] == 'ACTIVE' and t['client'] == w)
        pool = sorted(i for i, t in T0.items() if t['state'] == 'REQUESTED')
        mx = max(T0, default=0)
        need = n - len(own) - len(pool)
        deliveries = factory.deliveries[ndel0:]
        delivered = sum(d for _, d in deliveries)
        invoked = factory.calls['suggest'] - calls0
        mode = 'none'
        if deliveries:
          asked = sum(a for a, _ in deliveries)
          mode = 'exact' if delivered == asked else ('over' if delivered > asked else ('zero' if delivered == 0 else 'under'))
        resp = None
        err_op = False
        if kind == 'SuggestTrials' and out[0] == 'ok':
          if not out[2]['done']:
            viol.append(('operation-not-done', f'suggest by {w}: operation {out[2]["name"]} not done'))
          elif out[2]['error']:
            err_op = True
          else:
            resp = [{'id': t['id'], 'state': t['state'], 'client': t['client']} for t in out[2]['trials']]
        elif kind == 'ClientSuggest' and out[0] == 'ok':
          resp = out[2]
        elif out[0] == 'err' and out[1] != 'POLL-FOREVER':
          viol.append(('suggest-failed', f'suggest by {w} (n={n}) on an active study failed with {out[1]}'))
        if err_op:
          viol.append(('suggest-failed', f'suggest by {w} (n={n}) returned an errored operation: {out[2]["error"]}'))
        if resp is not None:
          ids = [t['id'] for t in resp]
          if len(set(ids)) != len(ids):
            viol.append(('duplicate-in-response', f'ids {ids}'))
          for t in resp:
            if t['state'] != 'ACTIVE' or t['client'] != w:
              viol.append(('not-active-or-not-assigned', f'trial {t["id"]}: {t["state"]} client={t["client"]!r} (worker {w})'))
              break
          r_own = [i for i in ids if i in own]
          r_pool = [i for i in ids if i in pool]
          r_new = [i for i in ids if i not in T0]
          r_foreign = [i for i in ids if i in T0 and i not in own and i not in pool]
          if r_foreign:
            viol.append(('foreign-trial-handed-out', f'suggest by {w}: trials {r_foreign} were {[(T0[i]["state"], T0[i]["client"]) for i in r_foreign]}'))
          if len(r_own) != min(len(own), n):
            viol.append(('own-active-first', f'suggest by {w} n={n}: own={own} response={ids}'))
          if len(r_pool) != min(len(pool), max(0, n - len(own))):
            viol.append(('requested-pool-next', f'suggest by {w} n={n}: own={own} pool={pool} response={ids}'))
          exp_new = min(max(need, 0), delivered)
          if len(r_new) != exp_new:
            viol.append(('new-trials-count', f'suggest by {w} n={n}: need={need} delivered={delivered} new in response={r_new}'))
          exp_size = n if (need <= 0 or delivered >= need) else len(own) + len(pool) + delivered
          if len(ids) != exp_size:
            viol.append(('response-size', f'suggest by {w} n={n}: got {len(ids)} expected {exp_size} (own={len(own)} pool={len(pool)} delivered={delivered})'))
          if need > 0 and not invoked:
            viol.append(('algorithm-not-invoked', f'suggest by {w} n={n}: need={need}'))
          created = sorted(i for i in T1 if i not in T0)
          if need > 0 and len(created) != delivered:
            viol.append(('suggestions-dropped-or-invented', f'suggest by {w} n={n}: delivered={delivered} but {len(created)} trials were created'))
          if need <= 0 and created:
            viol.append(('created-without-need', f'suggest by {w} n={n}: created {created}'))
          if created and min(created) <= mx:
            viol.append(('id-not-fresh', f'created {created} but max id was {mx}'))
          surplus = [i for i in created if i not in ids]
          for i in surplus:
            if T1[i]['state'] != 'REQUESTED' or T1[i]['client']:
              viol.append(('surplus-not-queued', f'surplus trial {i}: {T1[i]["state"]} client={T1[i]["client"]!r}'))
              break
          for i in ids:
            if i in T1 and (T1[i]['state'] != 'ACTIVE' or T1[i]['client'] != w):
              viol.append(('stored-differs-from-response', f'trial {i} stored as {T1[i]["state"]}/{T1[i]["client"]!r}'))
              break
          # untouched: everything not handed out keeps its state
          for i, t in T0.items():
            if i not in ids and (i not in T1 or T1[i] != t):
              viol.append(('bystander-trial-changed', f'trial {i} changed during suggest by {w}'))
              break
          if len(own) >= n:
            res.bump('probe.own-only-answer')
            if T1 != T0:
              viol.append(('repeat-call-changed-data', f'suggest by {w} n={n} with own={own} changed stored trials'))
          prev = last.get(w)
          if prev is not None and prev[0] == n and len(prev[1]) == n:
            res.bump('probe.repeat-same-set')
            if sorted(prev[1]) != sorted(ids):
              viol.append(('repeat-call-different-set', f'suggest by {w} n={n}: first {sorted(prev[1])} then {sorted(ids)}'))
          last[w] = (n, ids)
          nsrc = (1 if r_own else 0) + (1 if r_pool else 0) + (1 if r_new else 0)
          if nsrc >= 2:
            res.bump('probe.two-sources')
            multi_source = True
          if nsrc == 3:
            res.bump('probe.three-sources')
          if r_pool:
            res.bump('probe.pool-used')
          if surplus:
            res.bump('probe.over-delivery-queued')
          if mode == 'under':
            res.bump('probe.short-delivery')
          if mode == 'zero':
            res.bump('probe.zero-delivery')
          classes.append((w, n, bool(r_own), bool(r_pool), bool(r_new), mode))
        else:
          last.pop(w, None)
      else:
        last.clear()
        if kind in ('CreateTrial', 'ClientRequest', 'ClientAddTrial') and ok_study and out[0] == 'ok':
          T0, T1 = st_pre['trials'], st_post['trials']
          created = sorted(i for i in T1 if i not in T0)
          mx = max(T0, default=0)
          if len(created) != 1 or created[0] <= mx:
            viol.append(('id-not-fresh', f'{kind}: created {created}, max id was {mx}'))
        classes.append((kind, out[0]))
      for clause, detail in mon.step(c, out if out[0] == 'ok' else ('ok',), snap):
        if clause in ('client-reassigned', 'id-not-increasing', 'trial-identity', 'trial-vanished', 'illegal-transition'):
          viol.append(('history.' + clause, detail))
      if viol:
        seen = set()
        for clause, detail in viol:
          if clause not in seen:
            seen.add(clause)
            res.violate(clause, f'step {step} {kind}: {detail}', sig={'kind': kind}, step=step)
        break
    for k, v in factory.fired.items():
      res.bump('fault.' + k, v)
    res.evaluation(tuple(classes), len(workers_seen) >= 2 and multi_source)
    res.sample = {'cfg': cfg, 'faults': plan.get('faults'), 'ops': plan['ops'][:10]}


CHECK = C02()
